#!/bin/sh
# Builds the gosmt engine offline from /verif/engine.
set -e
cd "$(dirname "$0")/engine"
export PATH=/opt/veriftools/go1.26.8/bin:$PATH GOFLAGS=-mod=mod GOPROXY=off GOSUMDB=off GOTOOLCHAIN=local
mkdir -p ../bin
go build -o ../bin/gosmt .
