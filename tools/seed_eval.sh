#!/bin/bash
# usage: seed_eval.sh <prop> <seed_out dir> <module> <pkg rel to module> <demo file name in pkg> <run regex> [existing-test packages]
# Confirms a seeded change in a scratch worktree (outside /repo and /verif):
#   existing package tests pass with the patch, the demo fails with it and passes without it,
# then runs the registered check of <prop> against the patched tree.
set -u
P=$1; S=$2; MOD=$3; PKG=$4; DEMO=$5; RUN=$6; TESTPKGS=${7:-./$PKG/}
export PATH=/opt/veriftools/go1.26.8/bin:$PATH GOTOOLCHAIN=local GOWORK=off GOFLAGS=-mod=mod GOPROXY=off
WT=/tmp/seedeval_$P
git -C /repo worktree remove --force $WT >/dev/null 2>&1
git -C /repo worktree add -q --detach $WT HEAD || exit 2
cd $WT
DEMOSRC=$(ls $S/*_test.go | head -1)
cp $DEMOSRC $MOD/$PKG/$DEMO
echo "== demo WITHOUT patch (expect pass)"
(cd $MOD && go test -count=1 -run "$RUN" ./$PKG/ 2>&1 | tail -3)
git apply $S/patch.diff || { echo "patch does not apply"; exit 2; }
echo "== demo WITH patch (expect FAIL)"
(cd $MOD && go test -count=1 -run "$RUN" ./$PKG/ 2>&1 | tail -4)
rm $MOD/$PKG/$DEMO
echo "== existing tests WITH patch (expect pass)"
(cd $MOD && go test -count=1 $TESTPKGS 2>&1 | tail -4)
echo "== check $P against the patched tree"
(cd /verif && ./bin/gosmt -prop $P -repo $WT -noevidence 2>&1 | grep -v "^    " | grep "VIOLATION\|RESULT\|UNCONFIRMED\|INCOMPLETE\|harness=" | head -12)
cd /; git -C /repo worktree remove --force $WT
