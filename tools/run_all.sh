#!/bin/bash
# run every claimed check of one tier and summarise
tier=${1:-quick}
cd /verif
for p in $(python3 -c "import json;print(' '.join(sorted(json.load(open('claims.json')))))"); do
  s=$(date +%s)
  out=$(./check $p $tier 2>&1); rc=$?
  e=$(date +%s)
  echo "$p rc=$rc $((e-s))s $(echo "$out" | grep -E '^RESULT|^VIOLATION|^KNOWN' | tr '\n' ' ' | cut -c1-300)"
done
