#!/usr/bin/env python3
# usage: seed_store.py <id> <src seed_out dir> <caught|missed|...> <detail>
import sys, os, json, shutil
pid, src, res, detail = sys.argv[1:5]
sub = sys.argv[5] if len(sys.argv) > 5 else ''
dst = f'/verif/seeded/{pid}' + ('/' + sub if sub else '')
os.makedirs(dst, exist_ok=True)
for f in os.listdir(src):
    shutil.copy(os.path.join(src, f), os.path.join(dst, f))
mp = os.path.join(dst, 'meta.json')
try:
    m = json.load(open(mp))
except Exception:
    m = {"property": pid}
m["breaks_property"] = pid
m["evaluated_by"] = "tools/seed_eval.sh in a scratch worktree: existing package tests pass with the patch, demo fails with it and passes without it; then ./bin/gosmt -prop %s -repo <patched worktree>" % pid
m["check_result"] = res
m["check_detail"] = detail
json.dump(m, open(mp, 'w'), indent=1)
print("stored", dst)
