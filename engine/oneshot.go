package main

// One-shot solving: z3's incremental mode (push/pop, check-sat-assuming) uses
// a weaker pipeline than a fresh non-incremental run; nonlinear integer and
// floating-point queries that time out incrementally are often decided in
// milliseconds from scratch. Queries the incremental solver cannot decide
// within its (short) time slice are therefore re-decided here: the whole path
// condition plus the query is written to a fresh solver process.

import (
	"bufio"
	"bytes"
	"fmt"
	"os/exec"
	"strings"
	"time"
)

// scriptSolver reuses the Solver printer with an in-memory sink.
func newScriptSolver(tt *TermTable, name string, timeoutMs, seed int) (*Solver, *bytes.Buffer) {
	buf := &bytes.Buffer{}
	s := &Solver{name: name, tt: tt, defined: map[int]bool{}, timeout: timeoutMs, seed: seed}
	s.w = bufio.NewWriterSize(buf, 1<<16)
	s.options()
	return s, buf
}

// OneShot decides the conjunction of terms in a fresh solver process.
func (ex *Exec) oneShot(terms []*Term, vars []*Term, wantModel bool) (Res, Model) {
	t0 := time.Now()
	limit := ex.eng.oneShotMs
	if ex.oneShotLimit > 0 && ex.oneShotLimit < limit {
		limit = ex.oneShotLimit
	}
	ss, buf := newScriptSolver(ex.tt, ex.sol.name, limit, ex.eng.seed)
	for _, t := range terms {
		ss.Assert(t)
	}
	ss.send("(check-sat)")
	if wantModel && len(vars) > 0 {
		var names []string
		for _, v := range vars {
			names = append(names, ss.ref(v))
		}
		// declarations emitted by ref() must precede check-sat: rebuild in order
		_ = names
	}
	ss.w.Flush()
	script := buf.String()
	if wantModel && len(vars) > 0 {
		// make sure every variable is declared before (check-sat), then ask values
		var decl strings.Builder
		for _, v := range vars {
			if !ss.defined[v.id] {
				ss.defined[v.id] = true
				fmt.Fprintf(&decl, "(declare-fun %s () %s)\n", smtName(v.name), v.sort)
			}
		}
		script = strings.Replace(script, "(check-sat)\n", decl.String()+"(check-sat)\n", 1)
		var names []string
		for _, v := range vars {
			names = append(names, smtName(v.name))
		}
		script += "(get-value (" + strings.Join(names, " ") + "))\n"
	}
	argv := solverArgv(ex.sol.name, limit)
	// non-interactive invocation
	var cmd *exec.Cmd
	if strings.HasPrefix(ex.sol.name, "z3") {
		cmd = exec.Command(argv[0], "-in", "-smt2", fmt.Sprintf("-T:%d", limit/1000+2))
	} else {
		cmd = exec.Command(argv[0], argv[1:]...)
	}
	cmd.Stdin = strings.NewReader(script)
	out, _ := cmd.Output()
	ex.sol.Stats.Time += time.Since(t0)
	ex.sol.Stats.Queries++
	ex.oneShots++
	res := Unknown
	lines := strings.Split(string(out), "\n")
	rest := ""
	for i, l := range lines {
		l = strings.TrimSpace(l)
		if strings.HasPrefix(l, "(error") {
			ex.sol.Stats.Errors++
			ex.sol.Stats.Unknown++
			return Unknown, nil
		}
		if l == "sat" || l == "unsat" || l == "unknown" || l == "timeout" {
			switch l {
			case "sat":
				res = Sat
			case "unsat":
				res = Unsat
			}
			rest = strings.Join(lines[i+1:], " ")
			break
		}
	}
	switch res {
	case Sat:
		ex.sol.Stats.Sat++
	case Unsat:
		ex.sol.Stats.Unsat++
	default:
		ex.sol.Stats.Unknown++
	}
	var m Model
	if res == Sat && wantModel {
		m = Model{}
		vals := parseGetValue(rest)
		for k, v := range vars {
			if k < len(vals) {
				if c := ex.sol.parseConst(vals[k], v.sort); c != nil {
					m[v.name] = c
				}
			}
		}
	}
	return res, m
}

// solve decides pc ∧ extra: incrementally first, from scratch if that is
// inconclusive.
func (ex *Exec) solve(extra []*Term, vars []*Term, wantModel bool) (Res, Model) {
	var r Res
	var m Model
	// floating-point reasoning: the incremental solver practically never
	// finishes, a fresh run takes seconds
	fp := false
	for _, e := range extra {
		if e.hasFP {
			fp = true
		}
	}
	if !fp {
		for _, c := range ex.pc {
			if c.hasFP {
				fp = true
				break
			}
		}
	}
	if fp {
		for _, e := range extra {
			if e.isConst && e.u == 0 {
				return Unsat, nil
			}
		}
		all := append(append([]*Term(nil), ex.pc...), extra...)
		return ex.oneShot(all, vars, wantModel)
	}
	if wantModel {
		r, m = ex.sol.ModelWith(vars, extra...)
	} else {
		r = ex.sol.CheckWith(extra...)
	}
	if r != Unknown || ex.sol.dead {
		return r, m
	}
	// the unknown was counted by the incremental solver; take it back if the
	// one-shot run decides the query
	all := append(append([]*Term(nil), ex.pc...), extra...)
	r2, m2 := ex.oneShot(all, vars, wantModel)
	if r2 != Unknown {
		ex.sol.Stats.Unknown--
	}
	return r2, m2
}
