package main

import (
	"fmt"
	"go/constant"
	"go/token"
	"go/types"
	"math/big"
	"os"
	"runtime/debug"
	"sort"
	"strings"
	"sync"

	"golang.org/x/tools/go/ssa"
)

type fnInfo struct {
	idx map[ssa.Value]int
	n   int
}

var fnInfoCache sync.Map

func getFnInfo(fn *ssa.Function) *fnInfo {
	if v, ok := fnInfoCache.Load(fn); ok {
		return v.(*fnInfo)
	}
	fi := &fnInfo{idx: map[ssa.Value]int{}}
	for _, p := range fn.Params {
		fi.idx[p] = fi.n
		fi.n++
	}
	for _, p := range fn.FreeVars {
		fi.idx[p] = fi.n
		fi.n++
	}
	for _, b := range fn.Blocks {
		for _, in := range b.Instrs {
			if v, ok := in.(ssa.Value); ok {
				fi.idx[v] = fi.n
				fi.n++
			}
		}
	}
	fnInfoCache.Store(fn, fi)
	return fi
}

type deferred struct {
	fn   Value
	args []Value
	// invoke-mode
	method *types.Func
	recv   Value
	isInv  bool
}

type frame struct {
	fn        *ssa.Function
	info      *fnInfo
	regs      []Value
	block     *ssa.BasicBlock
	prev      *ssa.BasicBlock
	defers    []deferred
	panicking *goPanic
	result    Value
	returned  bool
	curInstr  ssa.Instruction
	symIter   map[int]int
	isDefer   bool
	skipPhi   bool
	caller    *frame
}

func (ex *Exec) get(fr *frame, v ssa.Value) Value {
	switch v := v.(type) {
	case *ssa.Const:
		return ex.constValue(v)
	case *ssa.Function:
		return &FuncV{fn: v}
	case *ssa.Global:
		return PtrV{obj: ex.globalObj(v)}
	case *ssa.Builtin:
		return &FuncV{builtin: v}
	}
	i, ok := fr.info.idx[v]
	if !ok {
		panic(fmt.Sprintf("no register for %s (%T) in %s", v.Name(), v, fr.fn))
	}
	return fr.regs[i]
}

func (ex *Exec) set(fr *frame, v ssa.Value, val Value) {
	fr.regs[fr.info.idx[v]] = val
}

// ---------- constants and zero values ----------

func (ex *Exec) constValue(c *ssa.Const) Value {
	t := c.Type()
	if c.Value == nil {
		return ex.zeroValue(t)
	}
	switch u := t.Underlying().(type) {
	case *types.Basic:
		switch {
		case u.Info()&types.IsBoolean != 0:
			return ex.tt.Bool(constant.BoolVal(c.Value))
		case u.Info()&types.IsInteger != 0:
			if ex.intMode {
				b, _ := new(big.Int).SetString(constant.ToInt(c.Value).ExactString(), 10)
				return ex.tt.Int(b)
			}
			if isSigned(t) {
				return ex.tt.BV(uint64(c.Int64()), basicWidth(u))
			}
			return ex.tt.BV(c.Uint64(), basicWidth(u))
		case u.Info()&types.IsFloat != 0:
			f := c.Float64()
			if u.Kind() == types.Float32 {
				return ex.tt.F32(float32(f))
			}
			return ex.tt.F64(f)
		case u.Info()&types.IsString != 0:
			return concStr(constant.StringVal(c.Value))
		}
	case *types.TypeParam:
	}
	ex.unsupported("constant of type %s", t)
	return nil
}

func (ex *Exec) zeroValue(t types.Type) Value {
	switch u := t.Underlying().(type) {
	case *types.Basic:
		switch {
		case u.Info()&types.IsBoolean != 0:
			return ex.tt.Bool(false)
		case u.Info()&types.IsInteger != 0:
			return ex.mkInt(0, t)
		case u.Info()&types.IsFloat != 0:
			if u.Kind() == types.Float32 {
				return ex.tt.F32(0)
			}
			return ex.tt.F64(0)
		case u.Info()&types.IsString != 0:
			return concStr("")
		case u.Kind() == types.UnsafePointer:
			return PtrV{}
		case u.Kind() == types.UntypedNil:
			return PtrV{}
		}
	case *types.Pointer:
		return PtrV{}
	case *types.Slice:
		return SliceV{off: ex.intc(0), len: ex.intc(0), cap: ex.intc(0)}
	case *types.Struct:
		f := make([]Value, u.NumFields())
		for i := range f {
			f[i] = ex.zeroValue(u.Field(i).Type())
		}
		return &StructV{f: f}
	case *types.Array:
		n := int(u.Len())
		e := make([]Value, n)
		if n > 0 {
			z := ex.zeroValue(u.Elem())
			for i := range e {
				e[i] = z
			}
		}
		return &ArrayV{e: e}
	case *types.Interface:
		return IfaceV{}
	case *types.Signature:
		return (*FuncV)(nil)
	case *types.Map:
		return (*MapV)(nil)
	case *types.Chan:
		return (*ChanV)(nil)
	case *types.Tuple:
		tv := make(TupleV, u.Len())
		for i := range tv {
			tv[i] = ex.zeroValue(u.At(i).Type())
		}
		return tv
	}
	ex.unsupported("zero value of %s", t)
	return nil
}

// ---------- heap ----------

func (ex *Exec) newObj(t types.Type, label string) *Object {
	ex.objN++
	o := &Object{id: ex.objN, typ: t, label: label}
	if a, ok := t.Underlying().(*types.Array); ok {
		o.isArr = true
		o.typ = a.Elem()
		n := int(a.Len())
		o.elems = make([]Value, n)
		if n > 0 {
			z := ex.zeroValue(a.Elem())
			for i := range o.elems {
				o.elems[i] = z
			}
		}
	} else {
		o.val = ex.zeroValue(t)
	}
	return o
}

func (ex *Exec) newArrObj(elem types.Type, n int, label string) *Object {
	ex.objN++
	o := &Object{id: ex.objN, typ: elem, isArr: true, label: label}
	o.elems = make([]Value, n)
	if n > 0 {
		z := ex.zeroValue(elem)
		for i := range o.elems {
			o.elems[i] = z
		}
	}
	return o
}

func (ex *Exec) globalObj(g *ssa.Global) *Object {
	if o, ok := ex.globals[g]; ok {
		return o
	}
	et := g.Type().(*types.Pointer).Elem()
	o := ex.newObj(et, g.String())
	o.global = g
	ex.globals[g] = o
	// lazily run the package initialiser for packages not under test
	if g.Pkg != nil {
		ex.ensureInit(g.Pkg)
	}
	return o
}

func (ex *Exec) ensureInit(p *ssa.Package) {
	if ex.initDone[p] != 0 {
		return
	}
	ex.initDone[p] = 1
	if ex.eng.skipInit[p.Pkg.Path()] {
		ex.initDone[p] = 2
		return
	}
	initFn := p.Func("init")
	if os.Getenv("GOSMT_DEBUG") != "" {
		fmt.Fprintf(os.Stderr, "ensureInit %s fn=%v blocks=%d\n", p.Pkg.Path(), initFn != nil, func() int {
			if initFn == nil {
				return -1
			}
			return len(initFn.Blocks)
		}())
	}
	if initFn == nil || initFn.Blocks == nil {
		ex.initDone[p] = 2
		return
	}
	// run init in a protected way: an unsupported operation leaves remaining globals at zero
	func() {
		defer func() {
			if r := recover(); r != nil {
				if pe, ok := r.(*pathEnd); ok && pe.kind == "unsupported" {
					ex.noteStub("init:" + p.Pkg.Path() + " (partial: " + pe.msg + ")")
					return
				}
				panic(r)
			}
		}()
		save := ex.depth
		savedFrames := len(ex.cur.frames)
		defer func() {
			ex.depth = save
			ex.cur.frames = ex.cur.frames[:savedFrames]
		}()
		ex.execFunction(initFn, nil, nil)
	}()
	ex.initDone[p] = 2
}

func (ex *Exec) noteStub(s string) {
	if ex.stubsHit == nil {
		ex.stubsHit = map[string]bool{}
	}
	ex.stubsHit[s] = true
}

// mergeValue builds ite(c, a, b) over structured values; ok=false when not mergeable.
func (ex *Exec) mergeValue(c *Term, a, b Value) (Value, bool) {
	switch x := a.(type) {
	case *Term:
		y, ok := b.(*Term)
		if !ok {
			return nil, false
		}
		return ex.tt.Ite(c, x, y), true
	case *StructV:
		y, ok := b.(*StructV)
		if !ok || len(x.f) != len(y.f) {
			return nil, false
		}
		if x == y {
			return x, true
		}
		f := make([]Value, len(x.f))
		for i := range f {
			v, ok := ex.mergeValue(c, x.f[i], y.f[i])
			if !ok {
				return nil, false
			}
			f[i] = v
		}
		return &StructV{f: f}, true
	case *ArrayV:
		y, ok := b.(*ArrayV)
		if !ok || len(x.e) != len(y.e) {
			return nil, false
		}
		if x == y {
			return x, true
		}
		e := make([]Value, len(x.e))
		for i := range e {
			v, ok := ex.mergeValue(c, x.e[i], y.e[i])
			if !ok {
				return nil, false
			}
			e[i] = v
		}
		return &ArrayV{e: e}, true
	case PtrV:
		y, ok := b.(PtrV)
		if ok && x.obj == y.obj && samePath(x.path, y.path) {
			return x, true
		}
	case *StrV:
		y, ok := b.(*StrV)
		if ok && x.conc && y.conc && x.s == y.s {
			return x, true
		}
		if ok && !x.opaque && !y.opaque && x.Len() == y.Len() {
			xb, yb := ex.strBytes(x), ex.strBytes(y)
			bs := make([]*Term, len(xb))
			for i := range bs {
				bs[i] = ex.tt.Ite(c, xb[i], yb[i])
			}
			return ex.mkStr(bs), true
		}
	case SliceV:
		y, ok := b.(SliceV)
		if ok && x.arr == y.arr {
			return SliceV{arr: x.arr, off: ex.tt.Ite(c, x.off, y.off), len: ex.tt.Ite(c, x.len, y.len), cap: ex.tt.Ite(c, x.cap, y.cap)}, true
		}
	case IfaceV:
		y, ok := b.(IfaceV)
		if ok && x.typ == nil && y.typ == nil {
			return x, true
		}
		if ok && x.typ != nil && y.typ != nil && types.Identical(x.typ, y.typ) {
			v, ok := ex.mergeValue(c, x.val, y.val)
			if ok {
				return IfaceV{typ: x.typ, val: v}, true
			}
		}
	case *FuncV:
		if y, ok := b.(*FuncV); ok && x == y {
			return x, true
		}
	case *MapV:
		if y, ok := b.(*MapV); ok && x == y {
			return x, true
		}
	case *ChanV:
		if y, ok := b.(*ChanV); ok && x == y {
			return x, true
		}
	}
	return nil, false
}

// resolveSymIdx turns a symbolic index into a concrete one by forking.
func (ex *Exec) resolveSymIdx(idx *Term, n int) int64 {
	k := ex.concretize(idx, "array index")
	return ex.termInt64(k)
}

func (ex *Exec) termInt64(k *Term) int64 {
	if !k.isConst {
		panic("termInt64: not constant")
	}
	if k.sort.K == SInt {
		return k.bi.Int64()
	}
	return sext(k.u, k.sort.W)
}

func (ex *Exec) getAt(v Value, path []pathElem) Value {
	for i, e := range path {
		switch x := v.(type) {
		case *ArrayRef:
			return ex.load(PtrV{obj: x.obj, path: path[i:]})
		case *StructV:
			if e.field < 0 {
				panic("getAt: index into struct")
			}
			v = x.f[e.field]
		case *ArrayV:
			if e.field >= 0 {
				panic("getAt: field of array")
			}
			if e.sym != nil {
				return ex.symSelect(x.e, e.sym, path[i+1:])
			}
			if e.idx < 0 || int(e.idx) >= len(x.e) {
				panic(fmt.Sprintf("getAt: array index %d out of range %d (engine bug: unchecked)", e.idx, len(x.e)))
			}
			v = x.e[e.idx]
		default:
			panic(fmt.Sprintf("getAt: cannot descend into %T", v))
		}
	}
	return v
}

// symSelect reads elems[idx] (then rest of path) for a symbolic idx.
func (ex *Exec) symSelect(elems []Value, idx *Term, rest []pathElem) Value {
	if len(elems) == 0 {
		ex.end("infeasible", "symbolic index into empty array")
	}
	var acc Value
	ok := true
	for i := len(elems) - 1; i >= 0; i-- {
		v := ex.getAt(elems[i], rest)
		if acc == nil {
			acc = v
			continue
		}
		c := ex.tt.Eq(idx, ex.idxConst(idx, int64(i)))
		acc, ok = ex.mergeValue(c, v, acc)
		if !ok {
			break
		}
	}
	if ok {
		return acc
	}
	k := ex.resolveSymIdx(idx, len(elems))
	return ex.getAt(elems[k], rest)
}

func (ex *Exec) idxConst(like *Term, v int64) *Term {
	if like.sort.K == SInt {
		return ex.tt.Int64(v)
	}
	return ex.tt.BV(uint64(v), like.sort.W)
}

func (ex *Exec) setAt(v Value, path []pathElem, nv Value) Value {
	if ref, ok := v.(*ArrayRef); ok {
		if _, isRef := nv.(*ArrayRef); !isRef || len(path) > 0 {
			ex.store(PtrV{obj: ref.obj, path: path}, nv)
			return ref
		}
	}
	if len(path) == 0 {
		return nv
	}
	e := path[0]
	switch x := v.(type) {
	case *StructV:
		f := make([]Value, len(x.f))
		copy(f, x.f)
		f[e.field] = ex.setAt(x.f[e.field], path[1:], nv)
		return &StructV{f: f}
	case *ArrayV:
		el := make([]Value, len(x.e))
		copy(el, x.e)
		if e.sym != nil {
			ex.symStore(el, e.sym, path[1:], nv)
		} else {
			el[e.idx] = ex.setAt(x.e[e.idx], path[1:], nv)
		}
		return &ArrayV{e: el}
	}
	panic(fmt.Sprintf("setAt: cannot descend into %T", v))
}

func (ex *Exec) symStore(elems []Value, idx *Term, rest []pathElem, nv Value) {
	// try ite-merge on every element
	merged := make([]Value, len(elems))
	ok := true
	for i := range elems {
		upd := ex.setAt(elems[i], rest, nv)
		c := ex.tt.Eq(idx, ex.idxConst(idx, int64(i)))
		merged[i], ok = ex.mergeValue(c, upd, elems[i])
		if !ok {
			break
		}
	}
	if ok {
		copy(elems, merged)
		return
	}
	k := ex.resolveSymIdx(idx, len(elems))
	elems[k] = ex.setAt(elems[k], rest, nv)
}

func (ex *Exec) load(p PtrV) Value {
	o := p.obj
	if o == nil {
		panic("load: nil pointer (unchecked)")
	}
	ex.noteAccess(p, false)
	if !o.isArr {
		v := ex.getAt(o.val, p.path)
		if ex.hasRefs {
			v = ex.snapshot(v)
		}
		return v
	}
	if len(p.path) == 0 {
		// whole array
		if o.symN != nil {
			ex.unsupported("load of whole symbolic-size array")
		}
		if p.viewLen > 0 {
			e := make([]Value, p.viewLen)
			copy(e, o.elems[p.base:p.base+int64(p.viewLen)])
			return &ArrayV{e: e}
		}
		e := make([]Value, len(o.elems))
		copy(e, o.elems)
		return &ArrayV{e: e}
	}
	e := p.path[0]
	if o.symN != nil {
		return ex.loadSym(o, e, p.path[1:])
	}
	if e.sym != nil {
		return ex.symSelect(o.elems, e.sym, p.path[1:])
	}
	if e.idx < 0 || int(e.idx) >= len(o.elems) {
		panic(fmt.Sprintf("load: index %d out of range %d (engine bug) %s", e.idx, len(o.elems), ex.stackString()))
	}
	return ex.getAt(o.elems[e.idx], p.path[1:])
}

func (ex *Exec) store(p PtrV, v Value) {
	o := p.obj
	if o == nil {
		panic("store: nil pointer (unchecked)")
	}
	ex.noteAccess(p, true)
	if !o.isArr {
		o.val = ex.setAt(o.val, p.path, v)
		return
	}
	if len(p.path) == 0 {
		av, ok := v.(*ArrayV)
		if !ok {
			panic(fmt.Sprintf("store: whole array with %T", v))
		}
		if p.viewLen > 0 {
			copy(o.elems[p.base:p.base+int64(p.viewLen)], av.e)
			return
		}
		copy(o.elems, av.e)
		return
	}
	e := p.path[0]
	if o.symN != nil {
		ex.storeSym(o, e, p.path[1:], v)
		return
	}
	if e.sym != nil {
		ex.symStore(o.elems, e.sym, p.path[1:], v)
		return
	}
	if e.idx < 0 || int(e.idx) >= len(o.elems) {
		panic(fmt.Sprintf("store: index %d out of range %d (engine bug) %s", e.idx, len(o.elems), ex.stackString()))
	}
	o.elems[e.idx] = ex.setAt(o.elems[e.idx], p.path[1:], v)
}

// ---- symbolic-size objects ----

func (ex *Exec) loadSym(o *Object, e pathElem, rest []pathElem) Value {
	if o.arrT != nil {
		var idx *Term
		if e.sym != nil {
			idx = e.sym
		} else {
			idx = ex.intc(e.idx)
		}
		if len(rest) != 0 {
			panic("loadSym: path into byte")
		}
		return ex.tt.Select(o.arrT, ex.arrIdx(idx))
	}
	if e.sym != nil {
		// merge over the written entries (unwritten ones are zero)
		keys := make([]int64, 0, len(o.sparse))
		for k := range o.sparse {
			keys = append(keys, k)
		}
		sort.Slice(keys, func(i, j int) bool { return keys[i] < keys[j] })
		acc := ex.getAt(o.zero(), rest)
		ok := true
		for _, k := range keys {
			v := ex.getAt(o.sparse[k], rest)
			acc, ok = ex.mergeValue(ex.tt.Eq(e.sym, ex.idxConst(e.sym, k)), v, acc)
			if !ok {
				break
			}
		}
		if ok {
			return acc
		}
		k := ex.concretize(e.sym, "index into sparse array")
		e = pathElem{field: -1, idx: ex.termInt64(k)}
	}
	v, ok := o.sparse[e.idx]
	if !ok {
		v = o.zero()
	}
	return ex.getAt(v, rest)
}

func (ex *Exec) storeSym(o *Object, e pathElem, rest []pathElem, v Value) {
	if o.arrT != nil {
		var idx *Term
		if e.sym != nil {
			idx = e.sym
		} else {
			idx = ex.intc(e.idx)
		}
		o.arrT = ex.tt.Store(o.arrT, ex.arrIdx(idx), v.(*Term))
		return
	}
	if e.sym != nil {
		k := ex.concretize(e.sym, "index into sparse array")
		e = pathElem{field: -1, idx: ex.termInt64(k)}
	}
	old, ok := o.sparse[e.idx]
	if !ok {
		old = o.zero()
	}
	o.sparse[e.idx] = ex.setAt(old, rest, v)
}

// arrIdx converts an int-typed term to the SMT array index sort.
func (ex *Exec) arrIdx(t *Term) *Term { return t }

func (ex *Exec) arrSort() Sort {
	if ex.intMode {
		return Sort{K: SArr, W: 8, IdxInt: true, ElInt: true}
	}
	return Sort{K: SArr, W: 8}
}

// ---------- function calls ----------

const maxDepth = 400

func (ex *Exec) callValue(fv Value, args []Value) Value {
	f, ok := fv.(*FuncV)
	if !ok || f == nil {
		ex.runtimePanic("invalid memory address or nil pointer dereference (nil func call)")
	}
	if f.builtin != nil {
		ex.unsupported("call of builtin value %s", f.builtin.Name())
	}
	return ex.callFunction(f.fn, args, f.bindings)
}

func fnKey(fn *ssa.Function) string {
	if o := fn.Origin(); o != nil {
		return o.String()
	}
	return fn.String()
}

func (ex *Exec) callFunction(fn *ssa.Function, args []Value, bindings []Value) Value {
	key := fnKey(fn)
	if ex.skipIntrinsicOnce == fn {
		ex.skipIntrinsicOnce = nil
	} else {
		// a model written in the running harness' own package overrides an engine intrinsic
		if ms, ok := ex.eng.models[key]; ok && !ex.modelDisabled(key) && ex.inModel == 0 {
			for _, c := range ms {
				if c.Pkg == ex.h.Fn.Pkg {
					ex.noteStub("model:" + key)
					ex.inModel++
					defer func() { ex.inModel-- }()
					return ex.callFunction(c, args, nil)
				}
			}
		}
		if in, ok := ex.eng.intrinsics[key]; ok {
			return in(ex, fn, args)
		}
		if fn.Pkg != nil && strings.HasPrefix(fn.Name(), "verif") {
			if in, ok := harnessAPI[fn.Name()]; ok {
				return in(ex, fn, args)
			}
		}
	}
	if ms, ok := ex.eng.models[key]; ok && !ex.modelDisabled(key) {
		// a model written in the package of the running harness takes precedence
		m := ms[0]
		for _, c := range ms {
			if c.Pkg == ex.h.Fn.Pkg {
				m = c
			}
		}
		ex.noteStub("model:" + key)
		ex.inModel++
		defer func() { ex.inModel-- }()
		return ex.callFunction(m, args, nil)
	}
	if fn.Synthetic == "package initializer" {
		// dependencies are initialised lazily, on first access to one of their globals
		return nil
	}
	return ex.execFunction(fn, args, bindings)
}

// modelDisabled: the harness directive nomodel=<substring>[,<substring>] keeps
// the named functions real for that harness although the package has a model.
func (ex *Exec) modelDisabled(key string) bool {
	for _, s := range ex.noModels {
		if s != "" && strings.Contains(key, s) {
			return true
		}
	}
	return false
}

func (ex *Exec) execFunction(fn *ssa.Function, args []Value, bindings []Value) Value {
	key := fnKey(fn)
	if fn.Blocks == nil {
		ex.unsupported("call to function without body: %s", key)
	}
	if ex.depth > maxDepth {
		ex.end("unwind", "call depth exceeded at "+key)
	}
	if ex.fnsHit != nil && fn.Pkg != nil {
		ex.fnsHit[fn] = true
	}
	fi := getFnInfo(fn)
	fr := &frame{fn: fn, info: fi, regs: make([]Value, fi.n)}
	if len(args) != len(fn.Params) {
		panic(fmt.Sprintf("call %s: %d args for %d params", key, len(args), len(fn.Params)))
	}
	for i, p := range fn.Params {
		fr.regs[fi.idx[p]] = args[i]
	}
	for i, fv := range fn.FreeVars {
		fr.regs[fi.idx[fv]] = bindings[i]
	}
	th := ex.cur
	if n := len(th.frames); n > 0 {
		fr.caller = th.frames[n-1]
	}
	th.frames = append(th.frames, fr)
	ex.depth++
	ex.runFrame(fr, fn.Blocks[0])
	ex.depth--
	th.frames = th.frames[:len(th.frames)-1]
	return fr.result
}

func (ex *Exec) runFrame(fr *frame, start *ssa.BasicBlock) {
	th := ex.cur
	base := len(th.frames)
	d := ex.depth
	for {
		gp := ex.protectedExec(fr, start)
		if gp == nil {
			return
		}
		// unwinding: restore frame stack to this frame
		th = ex.cur
		th.frames = th.frames[:base]
		ex.depth = d
		fr.panicking = gp
		// run deferred calls (each may recover or re-panic)
		for len(fr.defers) > 0 {
			dc := fr.defers[len(fr.defers)-1]
			fr.defers = fr.defers[:len(fr.defers)-1]
			if g2 := ex.protectedDefer(fr, dc); g2 != nil {
				th.frames = th.frames[:base]
				ex.depth = d
				fr.panicking = g2
			}
		}
		if fr.panicking != nil {
			gp := fr.panicking
			fr.panicking = nil
			panic(gp)
		}
		// recovered
		if fr.fn.Recover == nil {
			fr.result = ex.zeroResults(fr.fn)
			return
		}
		start = fr.fn.Recover
		fr.prev = nil
	}
}

func (ex *Exec) zeroResults(fn *ssa.Function) Value {
	res := fn.Signature.Results()
	switch res.Len() {
	case 0:
		return nil
	case 1:
		return ex.zeroValue(res.At(0).Type())
	}
	return ex.zeroValue(res)
}

func (ex *Exec) protectedExec(fr *frame, start *ssa.BasicBlock) (gp *goPanic) {
	defer func() {
		if r := recover(); r != nil {
			if g, ok := r.(*goPanic); ok {
				gp = g
				return
			}
			panic(ex.wrapEnginePanic(r))
		}
	}()
	ex.execBlocks(fr, start)
	return nil
}

func (ex *Exec) protectedDefer(fr *frame, dc deferred) (gp *goPanic) {
	defer func() {
		if r := recover(); r != nil {
			if g, ok := r.(*goPanic); ok {
				gp = g
				return
			}
			panic(r)
		}
	}()
	ex.runDeferred(fr, dc)
	return nil
}

func (ex *Exec) runDeferred(fr *frame, dc deferred) {
	ex.deferMark = fr
	if dc.isInv {
		ex.invoke(dc.recv, dc.method, dc.args)
		return
	}
	ex.callValueDefer(dc.fn, dc.args, fr)
}

func (ex *Exec) callValueDefer(fv Value, args []Value, parent *frame) {
	f, ok := fv.(*FuncV)
	if !ok || f == nil {
		ex.runtimePanic("invalid memory address or nil pointer dereference (nil deferred func)")
	}
	if f.builtin != nil {
		ex.callBuiltin(parent, f.builtin, args, nil)
		return
	}
	ex.callFunction(f.fn, args, f.bindings)
}

func (ex *Exec) runtimePanic(msg string) {
	if ex.specMode {
		panic(specAbort{})
	}
	panic(&goPanic{rt: msg, val: IfaceV{typ: ex.eng.runtimeErrorType(), val: concStr(msg)}, stack: ex.stackString()})
}

// check asserts an implicit Go runtime condition; on the failing side the Go panic is raised.
func (ex *Exec) check(ok *Term, msg string) {
	if ok.isConst && ok.u == 1 {
		return
	}
	if ex.specMode {
		panic(specAbort{})
	}
	if !ex.branch(ok) {
		ex.runtimePanic(msg)
	}
}

// ---------- block execution ----------

const maxSteps = 20_000_000

func (ex *Exec) execBlocks(fr *frame, b *ssa.BasicBlock) {
	for b != nil {
		fr.block = b
		// phis first (parallel assignment)
		nphi := 0
		if fr.skipPhi {
			// phis were already set by an if-conversion
			fr.skipPhi = false
			for _, in := range b.Instrs {
				if _, ok := in.(*ssa.Phi); !ok {
					break
				}
				nphi++
			}
		} else if fr.prev != nil {
			var predIdx = -1
			for i, p := range b.Preds {
				if p == fr.prev {
					predIdx = i
					break
				}
			}
			var vals []Value
			for _, in := range b.Instrs {
				phi, ok := in.(*ssa.Phi)
				if !ok {
					break
				}
				vals = append(vals, ex.get(fr, phi.Edges[predIdx]))
				nphi++
			}
			for i := 0; i < nphi; i++ {
				ex.set(fr, b.Instrs[i].(*ssa.Phi), vals[i])
			}
		}
		var next *ssa.BasicBlock
		for _, in := range b.Instrs[nphi:] {
			ex.steps++
			if ex.steps > ex.eng.maxSteps {
				ex.end("steps", "step limit")
			}
			fr.curInstr = in
			if debugTrace {
				fmt.Fprintf(os.Stderr, "  [%s b%d] %s\n", fr.fn.Name(), b.Index, in)
			}
			switch in := in.(type) {
			case *ssa.If:
				c := ex.get(fr, in.Cond).(*Term)
				var taken bool
				if c.isConst {
					taken = c.u == 1
				} else if j := ex.ifConvert(fr, b, c); j != nil {
					// both sides were pure: merged into ite terms, no fork
					fr.skipPhi = true
					next = j
					break
				} else {
					if fr.symIter == nil {
						fr.symIter = map[int]int{}
					}
					fr.symIter[b.Index]++
					if fr.symIter[b.Index] > ex.unwind {
						ex.end("unwind", fmt.Sprintf("loop bound %d exceeded in %s at %s", ex.unwind, fr.fn, ex.eng.prog.Fset.Position(in.Pos())))
					}
					taken = ex.branch(c)
				}
				if taken {
					next = b.Succs[0]
				} else {
					next = b.Succs[1]
				}
			case *ssa.Jump:
				next = b.Succs[0]
			case *ssa.Return:
				switch len(in.Results) {
				case 0:
					fr.result = nil
				case 1:
					fr.result = ex.get(fr, in.Results[0])
				default:
					tv := make(TupleV, len(in.Results))
					for i, r := range in.Results {
						tv[i] = ex.get(fr, r)
					}
					fr.result = tv
				}
				fr.returned = true
				return
			case *ssa.Panic:
				v := ex.get(fr, in.X)
				panic(&goPanic{val: v, stack: ex.stackString()})
			default:
				if fr.fn.Synthetic == "package initializer" {
					ex.execInitInstr(fr, in)
				} else {
					ex.execInstr(fr, in)
				}
			}
		}
		fr.prev = b
		b = next
	}
}

// execInitInstr runs one instruction of a package initializer; an initializer
// expression the engine cannot evaluate leaves that one global at its zero
// value (recorded as a stub) instead of abandoning the rest of the package.
func (ex *Exec) execInitInstr(fr *frame, in ssa.Instruction) {
	th := ex.cur
	base := len(th.frames)
	d := ex.depth
	defer func() {
		r := recover()
		if r == nil {
			return
		}
		var msg string
		switch x := r.(type) {
		case *pathEnd:
			if x.kind != "unsupported" {
				panic(r)
			}
			msg = x.msg
		case *enginePanic:
			msg = x.msg
		case *goPanic:
			msg = "panic: " + ex.panicMessage(x)
		default:
			panic(r)
		}
		th.frames = th.frames[:base]
		ex.depth = d
		ex.noteStub("init:" + fr.fn.Pkg.Pkg.Path() + " (skipped: " + firstLine(msg) + ")")
		if v, ok := in.(ssa.Value); ok {
			func() {
				defer func() { recover() }()
				ex.set(fr, v, ex.zeroValue(v.Type()))
			}()
		}
	}()
	ex.execInstr(fr, in)
}

func firstLine(s string) string {
	if i := strings.IndexByte(s, '\n'); i >= 0 {
		return s[:i]
	}
	return s
}

func (ex *Exec) execInstr(fr *frame, in ssa.Instruction) {
	switch in := in.(type) {
	case *ssa.DebugRef:
	case *ssa.Alloc:
		et := in.Type().(*types.Pointer).Elem()
		o := ex.newObj(et, in.Comment)
		ex.set(fr, in, PtrV{obj: o})
	case *ssa.BinOp:
		ex.set(fr, in, ex.binop(in.Op, ex.get(fr, in.X), ex.get(fr, in.Y), in.X.Type(), in.Y.Type(), in.Type()))
	case *ssa.UnOp:
		ex.set(fr, in, ex.unop(fr, in))
	case *ssa.Call:
		ex.set(fr, in, ex.doCall(fr, &in.Call, in))
	case *ssa.ChangeInterface:
		ex.set(fr, in, ex.get(fr, in.X))
	case *ssa.ChangeType:
		ex.set(fr, in, ex.get(fr, in.X))
	case *ssa.Convert:
		ex.set(fr, in, ex.convert(ex.get(fr, in.X), in.X.Type(), in.Type()))
	case *ssa.MultiConvert:
		ex.set(fr, in, ex.convert(ex.get(fr, in.X), in.X.Type(), in.Type()))
	case *ssa.Extract:
		ex.set(fr, in, ex.get(fr, in.Tuple).(TupleV)[in.Index])
	case *ssa.Field:
		ex.set(fr, in, ex.get(fr, in.X).(*StructV).f[in.Field])
	case *ssa.FieldAddr:
		p := ex.get(fr, in.X).(PtrV)
		ex.nilCheck(p)
		ex.set(fr, in, PtrV{obj: p.obj, path: extendPath(p.path, pathElem{field: in.Field})})
	case *ssa.Index:
		ex.set(fr, in, ex.indexValue(ex.get(fr, in.X), ex.get(fr, in.Index).(*Term), in.Index.Type()))
	case *ssa.IndexAddr:
		ex.set(fr, in, ex.indexAddr(ex.get(fr, in.X), ex.get(fr, in.Index).(*Term), in.Index.Type(), in.X.Type()))
	case *ssa.Lookup:
		ex.set(fr, in, ex.lookup(in, ex.get(fr, in.X), ex.get(fr, in.Index)))
	case *ssa.MakeInterface:
		ex.set(fr, in, IfaceV{typ: in.X.Type(), val: ex.get(fr, in.X)})
	case *ssa.MakeClosure:
		b := make([]Value, len(in.Bindings))
		for i, x := range in.Bindings {
			b[i] = ex.get(fr, x)
		}
		ex.set(fr, in, &FuncV{fn: in.Fn.(*ssa.Function), bindings: b})
	case *ssa.MakeMap:
		mt := in.Type().Underlying().(*types.Map)
		ex.mapN++
		ex.set(fr, in, &MapV{id: ex.mapN, kt: mt.Key(), vt: mt.Elem()})
	case *ssa.MakeChan:
		sz := ex.get(fr, in.Size).(*Term)
		sz = ex.concretize(sz, "chan size")
		ex.set(fr, in, ex.newChan(int(ex.termInt64(sz)), in.Type().Underlying().(*types.Chan).Elem()))
	case *ssa.MakeSlice:
		ex.set(fr, in, ex.makeSlice(in.Type().Underlying().(*types.Slice).Elem(), ex.get(fr, in.Len).(*Term), ex.get(fr, in.Cap).(*Term), in.Len.Type(), in.Cap.Type()))
	case *ssa.MapUpdate:
		ex.mapUpdate(ex.get(fr, in.Map), ex.get(fr, in.Key), ex.get(fr, in.Value))
	case *ssa.Range:
		ex.set(fr, in, ex.rangeIter(ex.get(fr, in.X)))
	case *ssa.Next:
		ex.set(fr, in, ex.next(in, ex.get(fr, in.Iter).(*IterV)))
	case *ssa.Slice:
		ex.set(fr, in, ex.sliceOp(fr, in))
	case *ssa.SliceToArrayPointer:
		s := ex.get(fr, in.X).(SliceV)
		at := in.Type().(*types.Pointer).Elem().Underlying().(*types.Array)
		ex.check(ex.cmpInt("<=", ex.intc(at.Len()), s.len, true), "cannot convert slice to array pointer: length too short")
		if s.arr == nil {
			ex.set(fr, in, PtrV{})
		} else {
			ex.set(fr, in, ex.arrayPtrOfSlice(s, int(at.Len())))
		}
	case *ssa.Store:
		p := ex.get(fr, in.Addr).(PtrV)
		ex.nilCheck(p)
		ex.store(p, ex.get(fr, in.Val))
	case *ssa.TypeAssert:
		ex.set(fr, in, ex.typeAssert(in, ex.get(fr, in.X)))
	case *ssa.Defer:
		ex.doDefer(fr, in)
	case *ssa.RunDefers:
		for len(fr.defers) > 0 {
			dc := fr.defers[len(fr.defers)-1]
			fr.defers = fr.defers[:len(fr.defers)-1]
			ex.runDeferred(fr, dc)
		}
	case *ssa.Go:
		ex.doGo(fr, in)
	case *ssa.Send:
		ex.chanSend(ex.get(fr, in.Chan), ex.get(fr, in.X))
	case *ssa.Select:
		ex.set(fr, in, ex.doSelect(fr, in))
	default:
		ex.unsupported("instruction %T: %s", in, in)
	}
}

func (ex *Exec) nilCheck(p PtrV) {
	if p.obj == nil {
		ex.runtimePanic("invalid memory address or nil pointer dereference")
	}
}

// arrayPtrOfSlice returns a pointer usable as *[n]T aliasing s's backing store.
// Only supported when the slice covers a dense object from a concrete offset.
func (ex *Exec) arrayPtrOfSlice(s SliceV, n int) PtrV {
	off := ex.concretize(s.off, "slice offset")
	o := ex.termInt64(off)
	if o == 0 && s.arr.symN == nil && len(s.arr.elems) == n {
		return PtrV{obj: s.arr}
	}
	if s.arr.symN == nil && o >= 0 && int(o)+n <= len(s.arr.elems) {
		return PtrV{obj: s.arr, base: o, viewLen: n}
	}
	ex.unsupported("slice-to-array-pointer at offset %d of object size %d", o, len(s.arr.elems))
	return PtrV{}
}

// ---------- calls ----------

func (ex *Exec) doCall(fr *frame, c *ssa.CallCommon, site ssa.Instruction) Value {
	args := make([]Value, 0, len(c.Args)+1)
	if c.IsInvoke() {
		recv := ex.get(fr, c.Value)
		for _, a := range c.Args {
			args = append(args, ex.get(fr, a))
		}
		return ex.invoke(recv, c.Method, args)
	}
	for _, a := range c.Args {
		args = append(args, ex.get(fr, a))
	}
	switch f := c.Value.(type) {
	case *ssa.Builtin:
		return ex.callBuiltin(fr, f, args, c)
	case *ssa.Function:
		return ex.callFunction(f, args, nil)
	case *ssa.MakeClosure:
		fv := ex.get(fr, f).(*FuncV)
		return ex.callFunction(fv.fn, args, fv.bindings)
	}
	return ex.callValue(ex.get(fr, c.Value), args)
}

func (ex *Exec) invoke(recv Value, m *types.Func, args []Value) Value {
	iv, ok := recv.(IfaceV)
	if !ok {
		panic(fmt.Sprintf("invoke on %T", recv))
	}
	if iv.typ == nil {
		ex.runtimePanic("invalid memory address or nil pointer dereference (method " + m.Name() + " on nil interface)")
	}
	fn := ex.eng.lookupMethod(iv.typ, m)
	if fn == nil {
		ex.unsupported("method %s not found on %s", m.Name(), iv.typ)
	}
	all := make([]Value, 0, len(args)+1)
	all = append(all, iv.val)
	all = append(all, args...)
	return ex.callFunction(fn, all, nil)
}

func (ex *Exec) doDefer(fr *frame, in *ssa.Defer) {
	c := &in.Call
	var dc deferred
	for _, a := range c.Args {
		dc.args = append(dc.args, ex.get(fr, a))
	}
	if c.IsInvoke() {
		dc.isInv = true
		dc.recv = ex.get(fr, c.Value)
		dc.method = c.Method
	} else {
		dc.fn = ex.get(fr, c.Value)
	}
	fr.defers = append(fr.defers, dc)
}

// ---------- type helpers ----------

func (ex *Exec) typeAssert(in *ssa.TypeAssert, x Value) Value {
	iv := x.(IfaceV)
	ok := false
	if iv.typ != nil {
		if types.IsInterface(in.AssertedType) {
			it := in.AssertedType.Underlying().(*types.Interface)
			ok = ex.eng.implements(iv.typ, it)
		} else {
			ok = types.Identical(iv.typ, in.AssertedType)
		}
	}
	var res Value
	if ok {
		if types.IsInterface(in.AssertedType) {
			res = iv
		} else {
			res = iv.val
		}
	} else {
		if !in.CommaOk {
			msg := "interface conversion: "
			if iv.typ == nil {
				msg += "interface is nil, not " + in.AssertedType.String()
			} else {
				msg += "interface is " + iv.typ.String() + ", not " + in.AssertedType.String()
			}
			ex.runtimePanic(msg)
		}
		res = ex.zeroValue(in.AssertedType)
	}
	if in.CommaOk {
		return TupleV{res, ex.tt.Bool(ok)}
	}
	return res
}

func posStr(prog *ssa.Program, p token.Pos) string {
	s := prog.Fset.Position(p).String()
	if i := strings.Index(s, "/repo/"); i >= 0 {
		s = s[i+6:]
	}
	return s
}

// snapshot replaces promoted-array references by array values (value copy semantics).
func (ex *Exec) snapshot(v Value) Value {
	switch x := v.(type) {
	case *ArrayRef:
		e := make([]Value, len(x.obj.elems))
		copy(e, x.obj.elems)
		return &ArrayV{e: e}
	case *StructV:
		var nf []Value
		for i, f := range x.f {
			// only struct and promoted-array fields can change
			switch f.(type) {
			case *StructV, *ArrayRef:
			default:
				continue
			}
			g := ex.snapshot(f)
			if g != f {
				if nf == nil {
					nf = make([]Value, len(x.f))
					copy(nf, x.f)
				}
				nf[i] = g
			}
		}
		if nf != nil {
			return &StructV{f: nf}
		}
	}
	return v
}

var debugTrace = os.Getenv("GOSMT_DEBUG") == "2"

type enginePanic struct {
	msg      string
	symStack string
	goStack  string
}

func (e *enginePanic) String() string {
	return e.msg + "\n-- interpreted stack:\n" + e.symStack + "-- engine stack:\n" + e.goStack
}

// wrapEnginePanic captures diagnostics for an unexpected panic of the engine itself.
func (ex *Exec) wrapEnginePanic(r interface{}) interface{} {
	switch r.(type) {
	case *pathEnd, *enginePanic, threadKill:
		return r
	}
	st := string(debug.Stack())
	// keep the part below the panic call
	if i := strings.Index(st, "panic("); i >= 0 {
		st = st[i:]
	}
	ls := strings.Split(st, "\n")
	if len(ls) > 24 {
		ls = ls[:24]
	}
	return &enginePanic{msg: fmt.Sprint(r), symStack: ex.stackString(), goStack: strings.Join(ls, "\n")}
}
