package main

import "go/types"

// symCopy performs copy(dst, src) for a symbolic element count n without
// forking: every position i below a concrete upper bound of n receives
// ite(i < n, src[i], old dst[i]). Only scalar element types.
func (ex *Exec) symCopy(dst SliceV, src Value, n *Term) (Value, bool) {
	if dst.arr == nil {
		return nil, false
	}
	if b, ok := dst.arr.typ.Underlying().(*types.Basic); !ok || b.Info()&(types.IsInteger|types.IsBoolean) == 0 {
		return nil, false
	}
	maxN := int64(-1)
	lower := func(b int64) {
		if maxN < 0 || b < maxN {
			maxN = b
		}
	}
	var getSrc func(i int64) *Term
	switch s := src.(type) {
	case SliceV:
		if s.arr == nil {
			return nil, false
		}
		if s.arr.symN == nil {
			total := int64(len(s.arr.elems))
			if s.off.isConst {
				lower(total - ex.termInt64(s.off))
			} else {
				lower(total)
			}
			getSrc = func(i int64) *Term {
				t, _ := ex.load(ex.sliceElemPtr(s, ex.intc(i))).(*Term)
				return t
			}
		} else if s.arr.arrT != nil {
			getSrc = func(i int64) *Term { return ex.tt.Select(s.arr.arrT, ex.addInt(s.off, ex.intc(i))) }
		} else {
			return nil, false
		}
		if s.len.isConst {
			lower(ex.termInt64(s.len))
		}
	case *StrV:
		if s.opaque {
			getSrc = func(i int64) *Term { return ex.tt.Select(s.arr, ex.intc(i)) }
		} else {
			bs := ex.strBytes(s)
			lower(int64(len(bs)))
			getSrc = func(i int64) *Term { return bs[i] }
		}
	default:
		return nil, false
	}
	if dst.arr.symN == nil {
		total := int64(len(dst.arr.elems))
		if dst.off.isConst {
			lower(total - ex.termInt64(dst.off))
		} else {
			lower(total)
		}
	} else if dst.arr.arrT == nil {
		return nil, false
	}
	if dst.len.isConst {
		lower(ex.termInt64(dst.len))
	}
	if maxN < 0 || maxN > 512 {
		return nil, false
	}
	if dst.arr.symN == nil && !dst.off.isConst && maxN > 64 {
		return nil, false // quadratic update of a dense array at symbolic offsets
	}
	srcVals := make([]*Term, maxN)
	for i := int64(0); i < maxN; i++ {
		v := getSrc(i)
		if v == nil {
			return nil, false
		}
		srcVals[i] = v
	}
	for i := int64(0); i < maxN; i++ {
		cond := ex.cmpInt("<", ex.intc(i), n, true)
		if dst.arr.symN != nil {
			idx := ex.addInt(dst.off, ex.intc(i))
			old := ex.tt.Select(dst.arr.arrT, idx)
			dst.arr.arrT = ex.tt.Store(dst.arr.arrT, idx, ex.tt.Ite(cond, srcVals[i], old))
			continue
		}
		p := ex.sliceElemPtr(dst, ex.intc(i))
		if len(p.path) == 1 && p.path[0].sym == nil && (p.path[0].idx < 0 || int(p.path[0].idx) >= len(dst.arr.elems)) {
			continue // beyond the backing array: i >= n necessarily
		}
		old, ok := ex.load(p).(*Term)
		if !ok {
			return nil, false
		}
		ex.store(p, ex.tt.Ite(cond, srcVals[i], old))
	}
	return n, true
}
