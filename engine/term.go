package main

// Hash-consed SMT terms with constant folding.
//
// Sorts: Bool, BV(n) n<=64, Int (mathematical, used in "Int mode"), F64 (IEEE
// double as SMT FloatingPoint), Arr (Array idx -> elem, used for opaque byte
// buffers of symbolic length).

import (
	"fmt"
	"math"
	"math/big"
	"math/bits"
	"strconv"
	"strings"
)

type SortKind int

const (
	SBool SortKind = iota
	SBV
	SInt
	SF64
	SF32
	SArr
)

type Sort struct {
	K SortKind
	W int // BV width; for SArr: element width (index sort is given by Int/BV64 via IdxInt)
	// for arrays
	IdxInt bool // index sort Int (Int mode) else BV64
	ElInt  bool // element sort Int else BV W
}

var (
	BoolSort = Sort{K: SBool}
	IntSort  = Sort{K: SInt}
	F64Sort  = Sort{K: SF64}
	F32Sort  = Sort{K: SF32}
)

func BVSort(w int) Sort { return Sort{K: SBV, W: w} }

func (s Sort) String() string {
	switch s.K {
	case SBool:
		return "Bool"
	case SBV:
		return fmt.Sprintf("(_ BitVec %d)", s.W)
	case SInt:
		return "Int"
	case SF64:
		return "(_ FloatingPoint 11 53)"
	case SF32:
		return "(_ FloatingPoint 8 24)"
	case SArr:
		idx := "(_ BitVec 64)"
		if s.IdxInt {
			idx = "Int"
		}
		el := fmt.Sprintf("(_ BitVec %d)", s.W)
		if s.ElInt {
			el = "Int"
		}
		return fmt.Sprintf("(Array %s %s)", idx, el)
	}
	return "?"
}

type Term struct {
	id   int
	op   string // "const", "var", or SMT operator (possibly indexed like "(_ extract 7 0)")
	args []*Term
	sort Sort
	// constants
	isConst bool
	u       uint64   // BV value (masked) / Bool (0,1)
	bi      *big.Int // Int value
	f       float64  // F64 value
	name    string   // var name
	defined bool     // define-fun emitted to solver (per solver instance; see Solver)
	hasFP   bool     // mentions floating-point arithmetic
}

func (t *Term) IsConst() bool { return t.isConst }

type TermTable struct {
	tab      map[string]*Term
	next     int
	terms    []*Term
	bnd      map[*Term][2]*big.Int
	varRange map[*Term][2]*big.Int
}

// setVarRange records (or widens) the declared range of an Int variable.
func (tt *TermTable) setVarRange(v *Term, lo, hi *big.Int) {
	if tt.varRange == nil {
		tt.varRange = map[*Term][2]*big.Int{}
	}
	if old, ok := tt.varRange[v]; ok {
		if old[0].Cmp(lo) <= 0 && old[1].Cmp(hi) >= 0 {
			return
		}
		if old[0].Cmp(lo) < 0 {
			lo = old[0]
		}
		if old[1].Cmp(hi) > 0 {
			hi = old[1]
		}
		tt.bnd = nil // invalidate derived bounds
	}
	tt.varRange[v] = [2]*big.Int{lo, hi}
}

func NewTermTable() *TermTable {
	return &TermTable{tab: map[string]*Term{}}
}

func (tt *TermTable) intern(key string, mk func() *Term) *Term {
	if t, ok := tt.tab[key]; ok {
		return t
	}
	t := mk()
	t.id = tt.next
	tt.next++
	tt.tab[key] = t
	tt.terms = append(tt.terms, t)
	return t
}

func mask(w int) uint64 {
	if w >= 64 {
		return ^uint64(0)
	}
	return (uint64(1) << uint(w)) - 1
}

func (tt *TermTable) Bool(b bool) *Term {
	if b {
		return tt.intern("cT", func() *Term { return &Term{op: "const", sort: BoolSort, isConst: true, u: 1} })
	}
	return tt.intern("cF", func() *Term { return &Term{op: "const", sort: BoolSort, isConst: true, u: 0} })
}

func (tt *TermTable) BV(v uint64, w int) *Term {
	v &= mask(w)
	key := "cb" + strconv.Itoa(w) + ":" + strconv.FormatUint(v, 16)
	return tt.intern(key, func() *Term { return &Term{op: "const", sort: BVSort(w), isConst: true, u: v} })
}

func (tt *TermTable) Int(v *big.Int) *Term {
	key := "ci" + v.String()
	return tt.intern(key, func() *Term { return &Term{op: "const", sort: IntSort, isConst: true, bi: new(big.Int).Set(v)} })
}

func (tt *TermTable) Int64(v int64) *Term { return tt.Int(big.NewInt(v)) }

func (tt *TermTable) F64(v float64) *Term {
	key := "cf" + strconv.FormatUint(math.Float64bits(v), 16)
	return tt.intern(key, func() *Term { return &Term{op: "const", sort: F64Sort, isConst: true, f: v} })
}

func (tt *TermTable) F32(v float32) *Term {
	key := "cg" + strconv.FormatUint(uint64(math.Float32bits(v)), 16)
	return tt.intern(key, func() *Term { return &Term{op: "const", sort: F32Sort, isConst: true, f: float64(v)} })
}

func (tt *TermTable) Var(name string, s Sort) *Term {
	key := "v" + name + "|" + s.String()
	return tt.intern(key, func() *Term { return &Term{op: "var", sort: s, name: name} })
}

func (tt *TermTable) app(op string, s Sort, args ...*Term) *Term {
	var sb strings.Builder
	sb.WriteString("a")
	sb.WriteString(op)
	for _, a := range args {
		sb.WriteByte(' ')
		sb.WriteString(strconv.Itoa(a.id))
	}
	if s.K == SArr || op == "fresh" {
		sb.WriteString("|" + s.String())
	} else if s.K == SBV {
		// the result width distinguishes zext/sext/conversions of one operand
		sb.WriteString("|" + strconv.Itoa(s.W))
	}
	key := sb.String()
	return tt.intern(key, func() *Term {
		t := &Term{op: op, sort: s, args: append([]*Term(nil), args...)}
		t.hasFP = s.K == SF64 || s.K == SF32
		for _, a := range args {
			if a.hasFP || a.sort.K == SF64 || a.sort.K == SF32 {
				t.hasFP = true
			}
		}
		return t
	})
}

// ---------- signed helpers ----------

func sext(v uint64, w int) int64 {
	if w >= 64 {
		return int64(v)
	}
	sh := uint(64 - w)
	return int64(v<<sh) >> sh
}

// ---------- boolean ops ----------

func (tt *TermTable) Not(a *Term) *Term {
	if a.isConst {
		return tt.Bool(a.u == 0)
	}
	if a.op == "not" {
		return a.args[0]
	}
	return tt.app("not", BoolSort, a)
}

func (tt *TermTable) And(a, b *Term) *Term {
	if a.isConst {
		if a.u == 0 {
			return a
		}
		return b
	}
	if b.isConst {
		if b.u == 0 {
			return b
		}
		return a
	}
	if a == b {
		return a
	}
	return tt.app("and", BoolSort, a, b)
}

func (tt *TermTable) Or(a, b *Term) *Term {
	if a.isConst {
		if a.u == 1 {
			return a
		}
		return b
	}
	if b.isConst {
		if b.u == 1 {
			return b
		}
		return a
	}
	if a == b {
		return a
	}
	return tt.app("or", BoolSort, a, b)
}

func (tt *TermTable) Implies(a, b *Term) *Term { return tt.Or(tt.Not(a), b) }

func (tt *TermTable) Ite(c, a, b *Term) *Term {
	if c.isConst {
		if c.u == 1 {
			return a
		}
		return b
	}
	if a == b {
		return a
	}
	if c.op == "not" {
		// canonical form: the condition of an ite is never a negation
		return tt.Ite(c.args[0], b, a)
	}
	if a.sort.K == SBool && a.isConst && b.isConst {
		if a.u == 1 && b.u == 0 {
			return c
		}
		if a.u == 0 && b.u == 1 {
			return tt.Not(c)
		}
	}
	return tt.app("ite", a.sort, c, a, b)
}

func (tt *TermTable) Eq(a, b *Term) *Term {
	if a == b {
		return tt.Bool(true)
	}
	if a.sort.K != b.sort.K || (a.sort.K == SBV && a.sort.W != b.sort.W) {
		panic(fmt.Sprintf("Eq: sort mismatch %v vs %v (%s, %s)", a.sort, b.sort, tt.Show(a), tt.Show(b)))
	}
	if a.isConst && b.isConst {
		switch a.sort.K {
		case SBool, SBV:
			return tt.Bool(a.u == b.u)
		case SInt:
			return tt.Bool(a.bi.Cmp(b.bi) == 0)
		case SF64, SF32:
			return tt.Bool(a.f == b.f) // Go ==, i.e. fp.eq
		}
	}
	if a.sort.K == SF64 || a.sort.K == SF32 {
		return tt.app("fp.eq", BoolSort, a, b)
	}
	if a.sort.K == SBool {
		if a.isConst {
			if a.u == 1 {
				return b
			}
			return tt.Not(b)
		}
		if b.isConst {
			if b.u == 1 {
				return a
			}
			return tt.Not(a)
		}
	}
	if a.id > b.id {
		a, b = b, a
	}
	return tt.app("=", BoolSort, a, b)
}

// ---------- bit-vector ops ----------

func (tt *TermTable) BVBin(op string, a, b *Term) *Term {
	w := a.sort.W
	if a.sort.K != SBV || b.sort.K != SBV || b.sort.W != w {
		panic(fmt.Sprintf("BVBin %s: sort mismatch %v %v", op, a.sort, b.sort))
	}
	if a.isConst && b.isConst {
		x, y := a.u, b.u
		var r uint64
		switch op {
		case "bvadd":
			r = x + y
		case "bvsub":
			r = x - y
		case "bvmul":
			r = x * y
		case "bvand":
			r = x & y
		case "bvor":
			r = x | y
		case "bvxor":
			r = x ^ y
		case "bvudiv":
			if y == 0 {
				r = mask(w)
			} else {
				r = x / y
			}
		case "bvurem":
			if y == 0 {
				r = x
			} else {
				r = x % y
			}
		case "bvsdiv":
			sx, sy := sext(x, w), sext(y, w)
			if sy == 0 {
				if sx >= 0 {
					r = mask(w)
				} else {
					r = 1
				}
			} else if sy == -1 {
				r = uint64(-sx)
			} else {
				r = uint64(sx / sy)
			}
		case "bvsrem":
			sx, sy := sext(x, w), sext(y, w)
			if sy == 0 {
				r = x
			} else if sy == -1 {
				r = 0
			} else {
				r = uint64(sx % sy)
			}
		case "bvshl":
			if y >= uint64(w) {
				r = 0
			} else {
				r = x << y
			}
		case "bvlshr":
			if y >= uint64(w) {
				r = 0
			} else {
				r = x >> y
			}
		case "bvashr":
			sx := sext(x, w)
			if y >= uint64(w) {
				if sx < 0 {
					r = mask(w)
				} else {
					r = 0
				}
			} else {
				r = uint64(sx >> y)
			}
		default:
			panic("BVBin fold: " + op)
		}
		return tt.BV(r, w)
	}
	// identities
	switch op {
	case "bvadd", "bvor", "bvxor":
		if a.isConst && a.u == 0 {
			return b
		}
		if b.isConst && b.u == 0 {
			return a
		}
		if op == "bvor" && a == b {
			return a
		}
		if op == "bvxor" && a == b {
			return tt.BV(0, w)
		}
	case "bvsub":
		if b.isConst && b.u == 0 {
			return a
		}
		if a == b {
			return tt.BV(0, w)
		}
	case "bvshl", "bvlshr", "bvashr":
		if b.isConst && b.u == 0 {
			return a
		}
		if a.isConst && a.u == 0 {
			return a
		}
		if b.isConst && b.u >= uint64(w) && op != "bvashr" {
			return tt.BV(0, w)
		}
	case "bvand":
		if a.isConst && a.u == 0 {
			return a
		}
		if b.isConst && b.u == 0 {
			return b
		}
		if a.isConst && a.u == mask(w) {
			return b
		}
		if b.isConst && b.u == mask(w) {
			return a
		}
		if a == b {
			return a
		}
	case "bvmul":
		if a.isConst && a.u == 1 {
			return b
		}
		if b.isConst && b.u == 1 {
			return a
		}
		if (a.isConst && a.u == 0) || (b.isConst && b.u == 0) {
			return tt.BV(0, w)
		}
	case "bvudiv", "bvsdiv":
		if b.isConst && b.u == 1 {
			return a
		}
	}
	// commutative normalisation
	switch op {
	case "bvadd", "bvmul", "bvand", "bvor", "bvxor":
		if a.id > b.id {
			a, b = b, a
		}
	}
	return tt.app(op, a.sort, a, b)
}

func (tt *TermTable) BVNot(a *Term) *Term {
	if a.isConst {
		return tt.BV(^a.u, a.sort.W)
	}
	return tt.app("bvnot", a.sort, a)
}

func (tt *TermTable) BVNeg(a *Term) *Term {
	if a.isConst {
		return tt.BV(-a.u, a.sort.W)
	}
	return tt.app("bvneg", a.sort, a)
}

func (tt *TermTable) BVCmp(op string, a, b *Term) *Term {
	w := a.sort.W
	if a.sort.K != SBV || b.sort.K != SBV || b.sort.W != w {
		panic(fmt.Sprintf("BVCmp %s: sort mismatch %v %v", op, a.sort, b.sort))
	}
	if a.isConst && b.isConst {
		var r bool
		switch op {
		case "bvult":
			r = a.u < b.u
		case "bvule":
			r = a.u <= b.u
		case "bvslt":
			r = sext(a.u, w) < sext(b.u, w)
		case "bvsle":
			r = sext(a.u, w) <= sext(b.u, w)
		}
		return tt.Bool(r)
	}
	if a == b {
		return tt.Bool(op == "bvule" || op == "bvsle")
	}
	// trivial bounds
	if op == "bvult" && b.isConst && b.u == 0 {
		return tt.Bool(false)
	}
	if op == "bvule" && a.isConst && a.u == 0 {
		return tt.Bool(true)
	}
	// zero-extended operand against constant that exceeds its range
	if a.op == "zext" && b.isConst {
		iw := a.args[0].sort.W
		if b.u > mask(iw) && (op == "bvult" || op == "bvule") {
			return tt.Bool(true)
		}
		if b.u > mask(iw) && sext(b.u, w) > 0 && (op == "bvslt" || op == "bvsle") {
			return tt.Bool(true)
		}
	}
	// canonical atoms: a <= b is written not(b < a), so a test and its
	// complement share one atom
	switch op {
	case "bvule":
		return tt.Not(tt.BVCmp("bvult", b, a))
	case "bvsle":
		return tt.Not(tt.BVCmp("bvslt", b, a))
	}
	return tt.app(op, BoolSort, a, b)
}

// Extract bits [hi:lo].
func (tt *TermTable) Extract(a *Term, hi, lo int) *Term {
	w := hi - lo + 1
	if lo == 0 && w == a.sort.W {
		return a
	}
	if a.isConst {
		return tt.BV(a.u>>uint(lo), w)
	}
	if a.op == "zext" || a.op == "sext" {
		iw := a.args[0].sort.W
		if hi < iw {
			return tt.Extract(a.args[0], hi, lo)
		}
		if a.op == "zext" && lo >= iw {
			return tt.BV(0, w)
		}
	}
	if a.op == "concat" {
		lw := a.args[1].sort.W
		if hi < lw {
			return tt.Extract(a.args[1], hi, lo)
		}
		if lo >= lw {
			return tt.Extract(a.args[0], hi-lw, lo-lw)
		}
	}
	// extract through or/and/xor with shifted bytes is left to the solver
	t := tt.app(fmt.Sprintf("(_ extract %d %d)", hi, lo), BVSort(w), a)
	return t
}

func (tt *TermTable) ZExt(a *Term, w int) *Term {
	if a.sort.W == w {
		return a
	}
	if a.sort.W > w {
		return tt.Extract(a, w-1, 0)
	}
	if a.isConst {
		return tt.BV(a.u, w)
	}
	if a.op == "zext" {
		return tt.ZExt(a.args[0], w)
	}
	t := tt.app("zext", BVSort(w), a)
	return t
}

func (tt *TermTable) SExt(a *Term, w int) *Term {
	if a.sort.W == w {
		return a
	}
	if a.sort.W > w {
		return tt.Extract(a, w-1, 0)
	}
	if a.isConst {
		return tt.BV(uint64(sext(a.u, a.sort.W)), w)
	}
	if a.op == "zext" { // zero-extended value is non-negative: sext == zext
		return tt.ZExt(a.args[0], w)
	}
	return tt.app("sext", BVSort(w), a)
}

func (tt *TermTable) Concat(hi, lo *Term) *Term {
	w := hi.sort.W + lo.sort.W
	if hi.isConst && lo.isConst && w <= 64 {
		return tt.BV(hi.u<<uint(lo.sort.W)|lo.u, w)
	}
	return tt.app("concat", BVSort(w), hi, lo)
}

// ---------- Int ops ----------

func (tt *TermTable) IntBin(op string, a, b *Term) *Term {
	if a.sort.K != SInt || b.sort.K != SInt {
		panic(fmt.Sprintf("IntBin %s: sort mismatch %v %v", op, a.sort, b.sort))
	}
	if a.isConst && b.isConst {
		r := new(big.Int)
		switch op {
		case "+":
			r.Add(a.bi, b.bi)
		case "-":
			r.Sub(a.bi, b.bi)
		case "*":
			r.Mul(a.bi, b.bi)
		case "div": // SMT-LIB: floor for positive divisor, Euclidean in general
			if b.bi.Sign() == 0 {
				return tt.app(op, IntSort, a, b)
			}
			m := new(big.Int)
			r.DivMod(a.bi, b.bi, m) // Euclidean
		case "mod":
			if b.bi.Sign() == 0 {
				return tt.app(op, IntSort, a, b)
			}
			q := new(big.Int)
			q.DivMod(a.bi, b.bi, r)
		default:
			panic("IntBin fold " + op)
		}
		return tt.Int(r)
	}
	switch op {
	case "+":
		if a.isConst && a.bi.Sign() == 0 {
			return b
		}
		if b.isConst && b.bi.Sign() == 0 {
			return a
		}
		if a.id > b.id {
			a, b = b, a
		}
	case "-":
		if b.isConst && b.bi.Sign() == 0 {
			return a
		}
		if a == b {
			return tt.Int64(0)
		}
	case "*":
		if a.isConst && a.bi.IsInt64() && a.bi.Int64() == 1 {
			return b
		}
		if b.isConst && b.bi.IsInt64() && b.bi.Int64() == 1 {
			return a
		}
		if (a.isConst && a.bi.Sign() == 0) || (b.isConst && b.bi.Sign() == 0) {
			return tt.Int64(0)
		}
		if a.id > b.id {
			a, b = b, a
		}
	case "div":
		if b.isConst && b.bi.IsInt64() && b.bi.Int64() == 1 {
			return a
		}
	}
	return tt.app(op, IntSort, a, b)
}

func (tt *TermTable) IntCmp(op string, a, b *Term) *Term {
	if a.sort.K != SInt || b.sort.K != SInt {
		panic(fmt.Sprintf("IntCmp %s: sort mismatch %v %v", op, a.sort, b.sort))
	}
	if a.isConst && b.isConst {
		c := a.bi.Cmp(b.bi)
		switch op {
		case "<":
			return tt.Bool(c < 0)
		case "<=":
			return tt.Bool(c <= 0)
		case ">":
			return tt.Bool(c > 0)
		case ">=":
			return tt.Bool(c >= 0)
		}
	}
	if a == b {
		return tt.Bool(op == "<=" || op == ">=")
	}
	// one canonical atom per ordered pair: everything is expressed with "<"
	// so that a condition and its complement share the atom
	switch op {
	case ">":
		return tt.app("<", BoolSort, b, a)
	case "<=":
		return tt.Not(tt.app("<", BoolSort, b, a))
	case ">=":
		return tt.Not(tt.app("<", BoolSort, a, b))
	}
	return tt.app(op, BoolSort, a, b)
}

func (tt *TermTable) IntNeg(a *Term) *Term {
	return tt.IntBin("-", tt.Int64(0), a)
}

// ---------- floating point ----------

func (tt *TermTable) FBin(op string, a, b *Term) *Term {
	if a.isConst && b.isConst && a.sort.K == SF64 {
		var r float64
		switch op {
		case "fp.add":
			r = a.f + b.f
		case "fp.sub":
			r = a.f - b.f
		case "fp.mul":
			r = a.f * b.f
		case "fp.div":
			r = a.f / b.f
		}
		return tt.F64(r)
	}
	if a.isConst && b.isConst && a.sort.K == SF32 {
		x, y := float32(a.f), float32(b.f)
		var r float32
		switch op {
		case "fp.add":
			r = x + y
		case "fp.sub":
			r = x - y
		case "fp.mul":
			r = x * y
		case "fp.div":
			r = x / y
		}
		return tt.F32(r)
	}
	return tt.app(op+" RNE", a.sort, a, b)
}

func (tt *TermTable) FCmp(op string, a, b *Term) *Term {
	if a.isConst && b.isConst {
		switch op {
		case "fp.lt":
			return tt.Bool(a.f < b.f)
		case "fp.leq":
			return tt.Bool(a.f <= b.f)
		case "fp.gt":
			return tt.Bool(a.f > b.f)
		case "fp.geq":
			return tt.Bool(a.f >= b.f)
		}
	}
	return tt.app(op, BoolSort, a, b)
}

func (tt *TermTable) FNeg(a *Term) *Term {
	if a.isConst {
		if a.sort.K == SF32 {
			return tt.F32(-float32(a.f))
		}
		return tt.F64(-a.f)
	}
	return tt.app("fp.neg", a.sort, a)
}

// ---------- arrays ----------

func (tt *TermTable) Select(arr, idx *Term) *Term {
	// read-over-write simplification for constant indices
	for a := arr; a.op == "store"; a = a.args[0] {
		if a.args[1] == idx {
			return a.args[2]
		}
		if !(a.args[1].isConst && idx.isConst) {
			break
		}
	}
	var es Sort
	if arr.sort.ElInt {
		es = IntSort
	} else {
		es = BVSort(arr.sort.W)
	}
	// skip stores at different constant indices
	base := arr
	for base.op == "store" && base.args[1].isConst && idx.isConst && base.args[1] != idx {
		base = base.args[0]
	}
	return tt.app("select", es, base, idx)
}

func (tt *TermTable) Store(arr, idx, v *Term) *Term {
	return tt.app("store", arr.sort, arr, idx, v)
}

// ---------- printing ----------

func fpLit(bitsv uint64, eb, sb int) string {
	total := eb + sb
	sign := (bitsv >> uint(total-1)) & 1
	exp := (bitsv >> uint(sb-1)) & mask(eb)
	man := bitsv & mask(sb-1)
	return fmt.Sprintf("(fp #b%d #b%0*b #b%0*b)", sign, eb, exp, sb-1, man)
}

func (t *Term) constSMT() string {
	switch t.sort.K {
	case SBool:
		if t.u == 1 {
			return "true"
		}
		return "false"
	case SBV:
		if t.sort.W%4 == 0 {
			return fmt.Sprintf("#x%0*x", t.sort.W/4, t.u)
		}
		return fmt.Sprintf("#b%0*b", t.sort.W, t.u)
	case SInt:
		if t.bi.Sign() < 0 {
			return "(- " + new(big.Int).Neg(t.bi).String() + ")"
		}
		return t.bi.String()
	case SF64:
		return fpLit(math.Float64bits(t.f), 11, 53)
	case SF32:
		return fpLit(uint64(math.Float32bits(float32(t.f))), 8, 24)
	}
	panic("constSMT")
}

func smtName(n string) string { return "|" + strings.ReplaceAll(n, "|", "_") + "|" }

// head returns the operator text with indexed-operator fixes.
func (t *Term) head() string {
	switch t.op {
	case "zext":
		return fmt.Sprintf("(_ zero_extend %d)", t.sort.W-t.args[0].sort.W)
	case "sext":
		return fmt.Sprintf("(_ sign_extend %d)", t.sort.W-t.args[0].sort.W)
	}
	return t.op
}

// Show renders a term fully inlined (for diagnostics; may be large).
func (tt *TermTable) Show(t *Term) string {
	var sb strings.Builder
	var rec func(t *Term, d int)
	rec = func(t *Term, d int) {
		if t.isConst {
			if t.sort.K == SBV {
				fmt.Fprintf(&sb, "%d", t.u)
			} else {
				sb.WriteString(t.constSMT())
			}
			return
		}
		if t.op == "var" {
			sb.WriteString(t.name)
			return
		}
		if d > 12 {
			sb.WriteString("…")
			return
		}
		sb.WriteString("(" + t.head())
		for _, a := range t.args {
			sb.WriteByte(' ')
			rec(a, d+1)
		}
		sb.WriteByte(')')
	}
	rec(t, 0)
	return sb.String()
}

// ---------- concrete evaluation under a model ----------

type Model map[string]*Term // var name -> constant term

// Eval evaluates t under m (missing vars default to zero). Used to re-check
// counterexamples against the encoding.
func (tt *TermTable) Eval(t *Term, m Model, memo map[*Term]*Term) *Term {
	if t.isConst {
		return t
	}
	if r, ok := memo[t]; ok {
		return r
	}
	var r *Term
	if t.op == "var" {
		if c, ok := m[t.name]; ok {
			r = c
		} else {
			r = t // not in the model: stays symbolic (callers treat it as "cannot tell")
		}
		memo[t] = r
		return r
	}
	args := make([]*Term, len(t.args))
	for i, a := range t.args {
		args[i] = tt.Eval(a, m, memo)
	}
	r = tt.rebuild(t, args)
	memo[t] = r
	return r
}

func (tt *TermTable) zeroOf(s Sort) *Term {
	switch s.K {
	case SBool:
		return tt.Bool(false)
	case SBV:
		return tt.BV(0, s.W)
	case SInt:
		return tt.Int64(0)
	case SF64:
		return tt.F64(0)
	case SF32:
		return tt.F32(0)
	}
	return nil
}

func (tt *TermTable) rebuild(t *Term, a []*Term) *Term {
	switch t.op {
	case "not":
		return tt.Not(a[0])
	case "and":
		return tt.And(a[0], a[1])
	case "or":
		return tt.Or(a[0], a[1])
	case "ite":
		return tt.Ite(a[0], a[1], a[2])
	case "=", "fp.eq":
		return tt.Eq(a[0], a[1])
	case "bvadd", "bvsub", "bvmul", "bvand", "bvor", "bvxor", "bvudiv", "bvurem", "bvsdiv", "bvsrem", "bvshl", "bvlshr", "bvashr":
		return tt.BVBin(t.op, a[0], a[1])
	case "bvnot":
		return tt.BVNot(a[0])
	case "bvneg":
		return tt.BVNeg(a[0])
	case "bvult", "bvule", "bvslt", "bvsle":
		return tt.BVCmp(t.op, a[0], a[1])
	case "zext":
		return tt.ZExt(a[0], t.sort.W)
	case "sext":
		return tt.SExt(a[0], t.sort.W)
	case "concat":
		return tt.Concat(a[0], a[1])
	case "+", "-", "*", "div", "mod":
		return tt.IntBin(t.op, a[0], a[1])
	case "<", "<=", ">", ">=":
		return tt.IntCmp(t.op, a[0], a[1])
	case "fp.add RNE", "fp.sub RNE", "fp.mul RNE", "fp.div RNE":
		return tt.FBin(strings.TrimSuffix(t.op, " RNE"), a[0], a[1])
	case "fp.lt", "fp.leq", "fp.gt", "fp.geq":
		return tt.FCmp(t.op, a[0], a[1])
	case "fp.neg":
		return tt.FNeg(a[0])
	case "select":
		return tt.Select(a[0], a[1])
	case "store":
		return tt.Store(a[0], a[1], a[2])
	}
	if strings.HasPrefix(t.op, "(_ extract") {
		var hi, lo int
		fmt.Sscanf(t.op, "(_ extract %d %d)", &hi, &lo)
		return tt.Extract(a[0], hi, lo)
	}
	if f, ok := convOps[t.op]; ok {
		return f(tt, t, a)
	}
	return tt.app(t.op, t.sort, a...)
}

var convOps = map[string]func(tt *TermTable, t *Term, a []*Term) *Term{}

func popcount(x uint64) int { return bits.OnesCount64(x) }
