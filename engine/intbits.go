package main

import "math/big"

// trailingZeros returns the largest k such that the Int term is structurally a
// multiple of 2^k (products with constants, sums of such), capped at 64.
func (ex *Exec) trailingZeros(t *Term) int {
	if t.sort.K != SInt {
		return 0
	}
	if t.isConst {
		if t.bi.Sign() == 0 {
			return 64
		}
		n := int(t.bi.TrailingZeroBits())
		if n > 64 {
			n = 64
		}
		return n
	}
	switch t.op {
	case "*":
		a, b := ex.trailingZeros(t.args[0]), ex.trailingZeros(t.args[1])
		if a+b > 64 {
			return 64
		}
		return a + b
	case "+", "-":
		a, b := ex.trailingZeros(t.args[0]), ex.trailingZeros(t.args[1])
		if a < b {
			return a
		}
		return b
	case "ite":
		a, b := ex.trailingZeros(t.args[1]), ex.trailingZeros(t.args[2])
		if a < b {
			return a
		}
		return b
	}
	return 0
}

// disjointSum returns hi+lo when hi is a multiple of 2^k and 0 <= lo < 2^k
// (so hi|lo == hi^lo == hi+lo), nil otherwise. Non-negative operands only.
func (ex *Exec) disjointSum(hi, lo *Term) *Term {
	k := ex.trailingZeros(hi)
	if k == 0 {
		return nil
	}
	ll, lh := ex.bounds(lo)
	hl, _ := ex.bounds(hi)
	if ll == nil || lh == nil || hl == nil || ll.Sign() < 0 || hl.Sign() < 0 {
		return nil
	}
	if lh.Cmp(new(big.Int).Lsh(big.NewInt(1), uint(k))) >= 0 {
		return nil
	}
	return ex.tt.IntBin("+", hi, lo)
}
