package main

import (
	"fmt"
	"go/ast"
	"go/types"
	"os"
	"path/filepath"
	"sort"
	"strconv"
	"strings"
	"sync"
	"time"

	"golang.org/x/tools/go/packages"
	"golang.org/x/tools/go/ssa"
	"golang.org/x/tools/go/ssa/ssautil"
)

type intrinsicFn func(ex *Exec, fn *ssa.Function, args []Value) Value

type Engine struct {
	prog       *ssa.Program
	pkgs       []*packages.Package
	ssaPkgs    map[string]*ssa.Package
	intrinsics map[string]intrinsicFn
	models     map[string][]*ssa.Function // //verif:model redirections (per defining package)
	skipInit   map[string]bool
	maxSteps   int64
	unwind     int
	maxAlloc   int64
	maxThreads int
	msCache    sync.Map // method lookup cache
	rtErrType  types.Type
	repo       string
	loadTime   time.Duration
	solverName string
	timeoutMs  int
	seed       int
	workers    int
	verbose    bool
	tier       string
	oneShotMs  int
}

type HarnessSpec struct {
	Name     string
	Fn       *ssa.Function
	Kind     string // api | step
	IntMode  bool
	Unwind   int
	MaxPaths int
	Preempt  int
	Tier     string // "" both, "thorough" only thorough
	Expect   string // "" | "violation" (used by self-tests only)
	Opts     map[string]string
	File     string
}

// scratchWorkspace writes a go.work outside /repo so that the go command never
// touches /repo/go.work.sum.
func scratchWorkspace(repo, dir string) (string, error) {
	mods := []string{"app", "core", "extras"}
	var sb strings.Builder
	sb.WriteString("go 1.25.0\n\nuse (\n")
	for _, m := range mods {
		sb.WriteString("\t" + filepath.Join(repo, m) + "\n")
	}
	sb.WriteString(")\n")
	wf := filepath.Join(dir, "go.work")
	if err := os.WriteFile(wf, []byte(sb.String()), 0o644); err != nil {
		return "", err
	}
	if b, err := os.ReadFile(filepath.Join(repo, "go.work.sum")); err == nil {
		os.WriteFile(filepath.Join(dir, "go.work.sum"), b, 0o644)
	}
	return wf, nil
}

func goEnv(gowork string) []string {
	env := []string{}
	for _, e := range os.Environ() {
		if strings.HasPrefix(e, "GOFLAGS=") || strings.HasPrefix(e, "GOWORK=") || strings.HasPrefix(e, "GOTOOLCHAIN=") || strings.HasPrefix(e, "GOPROXY=") || strings.HasPrefix(e, "GOSUMDB=") || strings.HasPrefix(e, "PATH=") {
			continue
		}
		env = append(env, e)
	}
	env = append(env, "GOWORK="+gowork, "GOTOOLCHAIN=local", "GOPROXY=off", "GOSUMDB=off", "GOFLAGS=",
		"PATH=/opt/veriftools/go1.26.8/bin:"+os.Getenv("PATH"))
	return env
}

// LoadEngine loads the packages (dirs relative to repo) with overlay files.
func LoadEngine(repo string, pkgDirs []string, overlay map[string][]byte, gowork string) (*Engine, error) {
	t0 := time.Now()
	cfg := &packages.Config{
		Mode:       packages.LoadAllSyntax,
		Dir:        filepath.Join(repo, "core"),
		Env:        goEnv(gowork),
		Overlay:    overlay,
		BuildFlags: []string{"-tags=verif"},
	}
	var pats []string
	for _, d := range pkgDirs {
		pats = append(pats, filepath.Join(repo, d))
	}
	pkgs, err := packages.Load(cfg, pats...)
	if err != nil {
		return nil, err
	}
	var errs []string
	packages.Visit(pkgs, nil, func(p *packages.Package) {
		for _, e := range p.Errors {
			errs = append(errs, e.Error())
		}
	})
	if len(errs) > 0 {
		if len(errs) > 20 {
			errs = errs[:20]
		}
		return nil, &LoadError{Errs: errs}
	}
	prog, spkgs := ssautil.AllPackages(pkgs, ssa.InstantiateGenerics)
	prog.Build()
	e := &Engine{prog: prog, pkgs: pkgs, ssaPkgs: map[string]*ssa.Package{}, repo: repo,
		intrinsics: map[string]intrinsicFn{}, models: map[string][]*ssa.Function{}, skipInit: map[string]bool{},
		maxSteps: 30_000_000, unwind: 300, maxAlloc: 1 << 20, maxThreads: 12}
	for i, p := range pkgs {
		if spkgs[i] != nil {
			e.ssaPkgs[p.PkgPath] = spkgs[i]
		}
	}
	registerIntrinsics(e)
	if rt := prog.ImportedPackage("runtime"); rt != nil {
		if tn := rt.Type("errorString"); tn != nil {
			e.rtErrType = tn.Type()
		}
	}
	e.loadTime = time.Since(t0)
	return e, nil
}

type LoadError struct{ Errs []string }

func (l *LoadError) Error() string { return "load errors:\n  " + strings.Join(l.Errs, "\n  ") }

func (e *Engine) runtimeErrorType() types.Type { return e.rtErrType }

type msKey struct {
	t    types.Type
	name string
	pkg  *types.Package
}

func (e *Engine) lookupMethod(t types.Type, m *types.Func) *ssa.Function {
	// cache by type string + method id
	key := t.String() + "\x00" + m.Id()
	if v, ok := e.msCache.Load(key); ok {
		return v.(*ssa.Function)
	}
	ms := e.prog.MethodSets.MethodSet(t)
	sel := ms.Lookup(m.Pkg(), m.Name())
	if sel == nil {
		return nil
	}
	fn := e.prog.MethodValue(sel)
	if fn != nil {
		e.msCache.Store(key, fn)
	}
	return fn
}

func (e *Engine) implements(t types.Type, it *types.Interface) bool {
	return types.Implements(t, it)
}

// parseDirectives reads "//verif:harness k=v ..." from a function's doc comment.
func parseDirectives(doc *ast.CommentGroup) (map[string]string, bool) {
	if doc == nil {
		return nil, false
	}
	for _, c := range doc.List {
		txt := strings.TrimSpace(strings.TrimPrefix(c.Text, "//"))
		if strings.HasPrefix(txt, "verif:harness") {
			m := map[string]string{}
			for _, f := range strings.Fields(txt)[1:] {
				if i := strings.IndexByte(f, '='); i > 0 {
					m[f[:i]] = f[i+1:]
				} else {
					m[f] = "true"
				}
			}
			return m, true
		}
	}
	return nil, false
}

// FindHarnesses lists the harness functions (ZZ_<prop>_*) of the loaded target packages.
func (e *Engine) FindHarnesses(prop string) []*HarnessSpec {
	var out []*HarnessSpec
	for _, p := range e.pkgs {
		sp := e.ssaPkgs[p.PkgPath]
		if sp == nil {
			continue
		}
		for _, f := range p.Syntax {
			for _, d := range f.Decls {
				fd, ok := d.(*ast.FuncDecl)
				if !ok || fd.Recv != nil {
					continue
				}
				// model redirections: //verif:model <full function name>
				if fd.Doc != nil {
					for _, c := range fd.Doc.List {
						txt := strings.TrimSpace(strings.TrimPrefix(c.Text, "//"))
						if strings.HasPrefix(txt, "verif:model ") {
							target := strings.TrimSpace(strings.TrimPrefix(txt, "verif:model "))
							if fn := sp.Func(fd.Name.Name); fn != nil {
								e.models[target] = append(e.models[target], fn)
							}
						}
					}
				}
				if !strings.HasPrefix(fd.Name.Name, "ZZ_"+prop+"_") {
					continue
				}
				opts, ok := parseDirectives(fd.Doc)
				if !ok {
					opts = map[string]string{}
				}
				fn := sp.Func(fd.Name.Name)
				if fn == nil {
					continue
				}
				h := &HarnessSpec{Name: fd.Name.Name, Fn: fn, Kind: "api", Opts: opts, Unwind: e.unwind, Preempt: 2,
					File: e.prog.Fset.Position(fd.Pos()).Filename}
				if v, ok := opts["kind"]; ok {
					h.Kind = v
				}
				if opts["mode"] == "int" {
					h.IntMode = true
				}
				if v, ok := opts["unwind"]; ok {
					h.Unwind, _ = strconv.Atoi(v)
				}
				if v, ok := opts["maxpaths"]; ok {
					h.MaxPaths, _ = strconv.Atoi(v)
				}
				if v, ok := opts["preempt"]; ok {
					h.Preempt, _ = strconv.Atoi(v)
				}
				h.Tier = opts["tier"]
				h.Expect = opts["expect"]
				out = append(out, h)
			}
		}
	}
	sort.Slice(out, func(i, j int) bool { return out[i].Name < out[j].Name })
	return out
}

func (e *Engine) String() string {
	return fmt.Sprintf("engine(%d pkgs)", len(e.pkgs))
}
