package main

// One long-lived SMT solver process (z3 -in by default), spoken to in
// SMT-LIB2 with push/pop. Declarations and definitions are global
// (:global-declarations) so hash-consed subterms are sent once.

import (
	"bufio"
	"fmt"
	"io"
	"math"
	"math/big"
	"os"
	"os/exec"
	"strconv"
	"strings"
	"time"
)

type SolverStats struct {
	Sat, Unsat, Unknown int
	Errors              int
	Time                time.Duration
	Queries             int
}

type Solver struct {
	name    string
	cmd     *exec.Cmd
	in      io.WriteCloser
	w       *bufio.Writer
	out     *bufio.Reader
	tt      *TermTable
	defined map[int]bool
	level   int
	Stats   SolverStats
	log     io.Writer // optional transcript
	timeout int       // ms per check-sat
	dead    bool
	lastErr string

	ufDeclared map[string]bool
	seed       int
	usePushPop bool
	scopeMark  map[int]bool
	scopeUF    map[string]bool
	paths      int
	tsize      map[*Term]int
	texts      map[*Term]*termText
	bodies     map[*Term]*termText
}

func solverArgv(name string, timeoutMs int) []string {
	switch name {
	case "z3":
		return []string{"z3", "-in", "-smt2"}
	case "z3-new":
		return []string{"z3-new", "-in", "-smt2"}
	case "cvc5":
		return []string{"cvc5", "--incremental", "--lang=smt2", "--produce-models", "--fp-exp", fmt.Sprintf("--tlimit-per=%d", timeoutMs)}
	}
	return strings.Fields(name)
}

func NewSolver(name string, tt *TermTable, timeoutMs int, seed int, logw io.Writer) (*Solver, error) {
	argv := solverArgv(name, timeoutMs)
	cmd := exec.Command(argv[0], argv[1:]...)
	in, err := cmd.StdinPipe()
	if err != nil {
		return nil, err
	}
	outp, err := cmd.StdoutPipe()
	if err != nil {
		return nil, err
	}
	cmd.Stderr = os.Stderr
	if err := cmd.Start(); err != nil {
		return nil, err
	}
	s := &Solver{name: name, cmd: cmd, in: in, w: bufio.NewWriterSize(in, 1<<16), out: bufio.NewReaderSize(outp, 1<<20), tt: tt, defined: map[int]bool{}, log: logw, timeout: timeoutMs}
	s.seed = seed
	s.usePushPop = os.Getenv("GOSMT_RESET") == ""
	s.options()
	return s, nil
}

func (s *Solver) options() {
	s.send("(set-option :print-success false)")
	s.send("(set-option :produce-models true)")
	if strings.HasPrefix(s.name, "z3") {
		s.send(fmt.Sprintf("(set-option :timeout %d)", s.timeout))
		s.send(fmt.Sprintf("(set-option :random-seed %d)", s.seed))
	} else {
		s.send("(set-logic ALL)")
	}
}

// Reset drops every assertion and definition (start of a new path). z3's
// get-value slows down linearly with the number of accumulated definitions,
// so definitions are re-sent per path instead of being kept globally.
func (s *Solver) Reset() {
	if s.usePushPop {
		if s.level > 0 {
			s.send("(pop 1)")
		}
		s.send("(push 1)")
		s.level = 1
		s.defined = map[int]bool{}
		s.ufDeclared = nil
		s.paths++
		if s.paths%500 != 0 {
			return
		}
		// occasionally start from scratch to bound solver memory
		s.send("(pop 1)")
	}
	s.send("(reset)")
	s.level = 0
	s.defined = map[int]bool{}
	s.ufDeclared = nil
	s.options()
	if s.usePushPop {
		s.send("(push 1)")
		s.level = 1
	}
}

func (s *Solver) Close() {
	if s.dead {
		return
	}
	s.dead = true
	s.w.WriteString("(exit)\n")
	s.w.Flush()
	s.in.Close()
	done := make(chan struct{})
	go func() { s.cmd.Wait(); close(done) }()
	select {
	case <-done:
	case <-time.After(2 * time.Second):
		s.cmd.Process.Kill()
	}
}

func (s *Solver) send(line string) {
	if s.log != nil {
		fmt.Fprintln(s.log, line)
	}
	if _, err := s.w.WriteString(line); err != nil {
		s.dead = true
		s.lastErr = err.Error()
	}
	s.w.WriteByte('\n')
}

// ref returns SMT text for t. Small terms are printed inline; terms whose
// tree size exceeds inlineMax are named once per solver scope with define-fun
// (z3 spends ~0.5 ms per define-fun and its get-value slows down with the
// number of definitions, so names are used sparingly).
const inlineMax = 40

type termText struct {
	text string
	deps []*Term // vars, fresh constants and named subterms the text mentions
	ufs  []*Term // uf applications whose function symbol must be declared
}

func (s *Solver) treeSize(t *Term) int {
	if t.isConst || t.op == "var" || len(t.args) == 0 {
		return 1
	}
	if n, ok := s.tsize[t]; ok {
		return n
	}
	n := 1
	for _, a := range t.args {
		n += s.treeSize(a)
		if n > 1<<20 {
			n = 1 << 20
			break
		}
	}
	if s.tsize == nil {
		s.tsize = map[*Term]int{}
	}
	s.tsize[t] = n
	return n
}

func (s *Solver) isNamed(t *Term) bool {
	return !t.isConst && t.op != "var" && (t.op == "fresh" || s.treeSize(t) > inlineMax)
}

// textOf returns the (cached) text of t assuming its deps are declared.
func (s *Solver) textOf(t *Term) *termText {
	if tx, ok := s.texts[t]; ok {
		return tx
	}
	tx := &termText{}
	switch {
	case t.isConst:
		tx.text = t.constSMT()
	case t.op == "var":
		tx.text = smtName(t.name)
		tx.deps = []*Term{t}
	case s.isNamed(t):
		tx.text = "t" + strconv.Itoa(t.id)
		tx.deps = []*Term{t}
	default:
		tx = s.bodyOf(t)
	}
	if s.texts == nil {
		s.texts = map[*Term]*termText{}
	}
	s.texts[t] = tx
	return tx
}

// bodyOf prints the application t with its arguments' texts.
func (s *Solver) bodyOf(t *Term) *termText {
	tx := &termText{}
	var sb strings.Builder
	if strings.HasPrefix(t.op, "uf:") {
		sb.WriteString("(" + smtName(t.op[3:]))
		tx.ufs = append(tx.ufs, t)
	} else {
		sb.WriteString("(" + t.head())
	}
	for _, a := range t.args {
		sb.WriteByte(' ')
		at := s.textOf(a)
		sb.WriteString(at.text)
		tx.deps = append(tx.deps, at.deps...)
		tx.ufs = append(tx.ufs, at.ufs...)
	}
	sb.WriteByte(')')
	tx.text = sb.String()
	if len(t.args) == 0 {
		tx.text = tx.text[1 : len(tx.text)-1]
	}
	return tx
}

func (s *Solver) ensureUFs(ufs []*Term) {
	for _, d := range ufs {
		fn := d.op[3:]
		if !s.ufDeclared[fn] {
			if s.ufDeclared == nil {
				s.ufDeclared = map[string]bool{}
			}
			s.ufDeclared[fn] = true
			var as []string
			for _, a := range d.args {
				as = append(as, a.sort.String())
			}
			s.send(fmt.Sprintf("(declare-fun %s (%s) %s)", smtName(fn), strings.Join(as, " "), d.sort))
		}
	}
}

func (s *Solver) ensure(tx *termText) {
	s.ensureUFs(tx.ufs)
	for _, d := range tx.deps {
		if s.defined[d.id] {
			continue
		}
		s.defined[d.id] = true
		switch {
		case d.op == "var":
			s.send(fmt.Sprintf("(declare-fun %s () %s)", smtName(d.name), d.sort))
		case d.op == "fresh":
			s.send(fmt.Sprintf("(declare-fun t%d () %s)", d.id, d.sort))
		default:
			b, ok := s.bodies[d]
			if !ok {
				b = s.bodyOf(d)
				if s.bodies == nil {
					s.bodies = map[*Term]*termText{}
				}
				s.bodies[d] = b
			}
			s.ensure(b)
			// declare + equate: z3 expands define-fun macros eagerly (≈1 ms each when nested)
			s.send(fmt.Sprintf("(declare-fun t%d () %s)", d.id, d.sort))
			s.send(fmt.Sprintf("(assert (= t%d %s))", d.id, b.text))
		}
	}
}

func (s *Solver) ref(t *Term) string {
	tx := s.textOf(t)
	s.ensure(tx)
	return tx.text
}

func (s *Solver) Push() {
	s.send("(push 1)")
	s.level++
	s.scopeMark = map[int]bool{}
	for id := range s.defined {
		s.scopeMark[id] = true
	}
	s.scopeUF = map[string]bool{}
	for f := range s.ufDeclared {
		s.scopeUF[f] = true
	}
}
func (s *Solver) Pop() {
	if s.level > 0 {
		s.send("(pop 1)")
		s.level--
	}
}
// PopScope closes a scope opened with Push inside a path: names introduced in
// the scope are forgotten (they were declared inside it).
func (s *Solver) PopScope() {
	if s.scopeMark != nil {
		for id := range s.defined {
			if !s.scopeMark[id] {
				delete(s.defined, id)
			}
		}
		for f := range s.ufDeclared {
			if !s.scopeUF[f] {
				delete(s.ufDeclared, f)
			}
		}
		s.scopeMark, s.scopeUF = nil, nil
	}
	s.Pop()
}

func (s *Solver) PopAll() {
	for s.level > 0 {
		s.Pop()
	}
}

func (s *Solver) Assert(t *Term) {
	if t.isConst && t.u == 1 {
		return
	}
	s.send("(assert " + s.ref(t) + ")")
}

type Res int

const (
	Unsat Res = iota
	Sat
	Unknown
)

func (r Res) String() string { return [...]string{"unsat", "sat", "unknown"}[r] }

func (s *Solver) readLine() string {
	if s.w.Buffered() > 0 {
		if err := s.w.Flush(); err != nil {
			s.dead = true
			s.lastErr = err.Error()
		}
	}
	line, err := s.out.ReadString('\n')
	if err != nil {
		s.dead = true
		s.lastErr = "solver died: " + err.Error()
		return "(error \"" + s.lastErr + "\")"
	}
	line = strings.TrimSpace(line)
	if s.log != nil {
		fmt.Fprintln(s.log, "; <- "+line)
	}
	return line
}

// Check runs (check-sat). Any "(error" output makes the answer Unknown.
func (s *Solver) Check() Res {
	if s.dead {
		s.Stats.Unknown++
		return Unknown
	}
	t0 := time.Now()
	s.send("(check-sat)")
	return s.readCheck(t0)
}

func (s *Solver) readCheck(t0 time.Time) Res {
	s.send("(echo \"<<done>>\")")
	res := Unknown
	sawErr := false
	for {
		l := s.readLine()
		if l == "<<done>>" || l == "\"<<done>>\"" {
			break
		}
		if strings.HasPrefix(l, "(error") {
			sawErr = true
			s.lastErr = l
			s.Stats.Errors++
			if s.dead {
				break
			}
			continue
		}
		switch l {
		case "sat":
			res = Sat
		case "unsat":
			res = Unsat
		case "unknown", "timeout":
			res = Unknown
		}
	}
	if sawErr {
		res = Unknown
	}
	s.Stats.Time += time.Since(t0)
	s.Stats.Queries++
	switch res {
	case Sat:
		s.Stats.Sat++
	case Unsat:
		s.Stats.Unsat++
	default:
		s.Stats.Unknown++
	}
	return res
}

// CheckWith decides pc ∧ extra without disturbing the assertion stack
// (check-sat-assuming over the named definitions of the extra terms).
func (s *Solver) CheckWith(extra ...*Term) Res {
	for _, e := range extra {
		if e.isConst && e.u == 0 {
			return Unsat
		}
	}
	var lits []string
	for _, e := range extra {
		if e.isConst {
			continue
		}
		lits = append(lits, s.lit(e))
	}
	return s.checkAssuming(lits)
}

// lit returns a propositional literal for boolean term e: check-sat-assuming
// wants symbols, so a non-atomic term is bound to a named proposition first.
func (s *Solver) lit(e *Term) string {
	if e.op == "not" && !e.args[0].isConst {
		return "(not " + s.litSym(e.args[0]) + ")"
	}
	return s.litSym(e)
}

func (s *Solver) litSym(e *Term) string {
	if e.op == "var" {
		return s.ref(e)
	}
	nm := "p" + strconv.Itoa(e.id)
	if !s.defined[-1-e.id] {
		s.defined[-1-e.id] = true
		body := s.ref(e)
		s.send(fmt.Sprintf("(declare-fun %s () Bool)", nm))
		s.send(fmt.Sprintf("(assert (= %s %s))", nm, body))
	}
	return nm
}

func (s *Solver) checkAssuming(lits []string) Res {
	if s.dead {
		s.Stats.Unknown++
		return Unknown
	}
	t0 := time.Now()
	if len(lits) == 0 {
		s.send("(check-sat)")
	} else {
		s.send("(check-sat-assuming (" + strings.Join(lits, " ") + "))")
	}
	return s.readCheck(t0)
}

// Values fetches model values of the given variable terms (after a Sat).
// Must be called before the scope of the sat check is popped; use ModelWith.
func (s *Solver) values(vars []*Term) Model {
	m := Model{}
	const chunk = 64
	for i := 0; i < len(vars); i += chunk {
		j := i + chunk
		if j > len(vars) {
			j = len(vars)
		}
		var names []string
		for _, v := range vars[i:j] {
			names = append(names, s.ref(v))
		}
		s.send("(get-value (" + strings.Join(names, " ") + "))")
		s.send("(echo \"<<done>>\")")
		var buf strings.Builder
		for {
			l := s.readLine()
			if l == "<<done>>" || l == "\"<<done>>\"" {
				break
			}
			if s.dead {
				break
			}
			buf.WriteString(l)
			buf.WriteByte(' ')
		}
		vals := parseGetValue(buf.String())
		for k, v := range vars[i:j] {
			if k < len(vals) {
				if c := s.parseConst(vals[k], v.sort); c != nil {
					m[v.name] = c
				}
			}
		}
	}
	return m
}

// ModelWith checks pc ∧ extra and returns a model if sat.
func (s *Solver) ModelWith(vars []*Term, extra ...*Term) (Res, Model) {
	var lits []string
	for _, e := range extra {
		if e.isConst {
			if e.u == 0 {
				return Unsat, nil
			}
			continue
		}
		lits = append(lits, s.lit(e))
	}
	for _, v := range vars {
		s.ref(v)
	}
	r := s.checkAssuming(lits)
	var m Model
	if r == Sat {
		m = s.values(vars)
	}
	return r, m
}

// parseGetValue splits "((a v1) (b v2))" into value s-expressions.
func parseGetValue(s string) []string {
	s = strings.TrimSpace(s)
	if len(s) < 2 {
		return nil
	}
	// strip outer parens
	s = strings.TrimSpace(s[1 : len(s)-1])
	var out []string
	i := 0
	for i < len(s) {
		if s[i] != '(' {
			i++
			continue
		}
		// pair starts
		depth := 0
		j := i
		for ; j < len(s); j++ {
			if s[j] == '(' {
				depth++
			} else if s[j] == ')' {
				depth--
				if depth == 0 {
					break
				}
			} else if s[j] == '|' {
				j++
				for j < len(s) && s[j] != '|' {
					j++
				}
			}
		}
		pair := s[i+1 : j]
		// name then value
		k := 0
		if len(pair) > 0 && pair[0] == '|' {
			k = 1 + strings.IndexByte(pair[1:], '|') + 1
		} else if len(pair) > 0 && pair[0] == '(' {
			// compound term echoed back: skip the balanced expression
			d := 0
			for k = 0; k < len(pair); k++ {
				if pair[k] == '|' {
					k++
					for k < len(pair) && pair[k] != '|' {
						k++
					}
				} else if pair[k] == '(' {
					d++
				} else if pair[k] == ')' {
					d--
					if d == 0 {
						k++
						break
					}
				}
			}
		} else {
			for k < len(pair) && pair[k] != ' ' {
				k++
			}
		}
		out = append(out, strings.TrimSpace(pair[k:]))
		i = j + 1
	}
	return out
}

func (s *Solver) parseConst(v string, sort Sort) *Term {
	tt := s.tt
	v = strings.TrimSpace(v)
	switch sort.K {
	case SBool:
		return tt.Bool(v == "true")
	case SBV:
		if strings.HasPrefix(v, "#x") {
			u, err := strconv.ParseUint(v[2:], 16, 64)
			if err == nil {
				return tt.BV(u, sort.W)
			}
		}
		if strings.HasPrefix(v, "#b") {
			u, err := strconv.ParseUint(v[2:], 2, 64)
			if err == nil {
				return tt.BV(u, sort.W)
			}
		}
		if strings.HasPrefix(v, "(_ bv") {
			f := strings.Fields(strings.Trim(v, "()"))
			if len(f) >= 2 {
				b, ok := new(big.Int).SetString(strings.TrimPrefix(f[1], "bv"), 10)
				if ok {
					return tt.BV(b.Uint64(), sort.W)
				}
			}
		}
	case SInt:
		neg := false
		x := v
		if strings.HasPrefix(x, "(-") {
			neg = true
			x = strings.TrimSpace(strings.TrimSuffix(strings.TrimPrefix(x, "(-"), ")"))
		}
		b, ok := new(big.Int).SetString(x, 10)
		if ok {
			if neg {
				b.Neg(b)
			}
			return tt.Int(b)
		}
	case SF64, SF32:
		eb, sb := 11, 53
		if sort.K == SF32 {
			eb, sb = 8, 24
		}
		var bitsv uint64
		ok := false
		if strings.HasPrefix(v, "(fp ") {
			f := strings.Fields(strings.Trim(v, "()"))
			if len(f) == 4 {
				p := func(x string) (uint64, int) {
					if strings.HasPrefix(x, "#b") {
						u, _ := strconv.ParseUint(x[2:], 2, 64)
						return u, len(x) - 2
					}
					u, _ := strconv.ParseUint(x[2:], 16, 64)
					return u, 4 * (len(x) - 2)
				}
				sg, _ := p(f[1])
				ex, _ := p(f[2])
				mn, _ := p(f[3])
				bitsv = sg<<uint(eb+sb-1) | ex<<uint(sb-1) | mn
				ok = true
			}
		} else if strings.Contains(v, "+zero") {
			ok = true
		} else if strings.Contains(v, "-zero") {
			bitsv = 1 << uint(eb+sb-1)
			ok = true
		} else if strings.Contains(v, "+oo") {
			bitsv = mask(eb) << uint(sb-1)
			ok = true
		} else if strings.Contains(v, "-oo") {
			bitsv = 1<<uint(eb+sb-1) | mask(eb)<<uint(sb-1)
			ok = true
		} else if strings.Contains(v, "NaN") {
			bitsv = mask(eb)<<uint(sb-1) | 1<<uint(sb-2)
			ok = true
		}
		if ok {
			if sort.K == SF32 {
				return tt.F32(math.Float32frombits(uint32(bitsv)))
			}
			return tt.F64(math.Float64frombits(bitsv))
		}
	}
	return nil
}

// ValueOf returns a model value of t under the current assertions.
func (s *Solver) ValueOf(t *Term) (Res, *Term) {
	ref := s.ref(t)
	r := s.Check()
	if r != Sat {
		return r, nil
	}
	s.send("(get-value (" + ref + "))")
	s.send("(echo \"<<done>>\")")
	var buf strings.Builder
	for {
		l := s.readLine()
		if l == "<<done>>" || l == "\"<<done>>\"" {
			break
		}
		if s.dead {
			break
		}
		buf.WriteString(l)
		buf.WriteByte(' ')
	}
	vals := parseGetValue(buf.String())
	if len(vals) != 1 {
		return Unknown, nil
	}
	c := s.parseConst(vals[0], t.sort)
	if c == nil {
		return Unknown, nil
	}
	return Sat, c
}
