package main

// If-conversion: a branch on a symbolic condition whose two sides contain only
// pure computations and meet again in a block that merges them with phis is
// executed without forking the path — both sides are evaluated and the phis
// become ite terms. This removes the path explosion of && / || / min / max /
// clamp patterns. Any implicit check that is not trivially true on a side
// (nil dereference, bounds, ...) aborts the conversion and the branch is
// explored the ordinary way.

import (
	"go/token"

	"golang.org/x/tools/go/ssa"
)

type specAbort struct{}

const ifConvMaxInstrs = 12

func pureInstr(in ssa.Instruction) bool {
	switch x := in.(type) {
	case *ssa.BinOp:
		switch x.Op {
		case token.QUO, token.REM, token.SHL, token.SHR:
			return false
		}
		return true
	case *ssa.UnOp:
		return x.Op != token.ARROW
	case *ssa.Convert, *ssa.ChangeType, *ssa.Field, *ssa.Extract, *ssa.FieldAddr, *ssa.IndexAddr, *ssa.Index,
		*ssa.MakeInterface, *ssa.ChangeInterface, *ssa.DebugRef, *ssa.Slice:
		return true
	case *ssa.Call:
		// len / cap only
		if b, ok := x.Call.Value.(*ssa.Builtin); ok && (b.Name() == "len" || b.Name() == "cap") {
			return true
		}
	}
	return false
}

// sideOf classifies successor s of the branching block b: either s is a pure
// pass-through block (single predecessor b, pure instructions, ends in a jump)
// leading to join, or s is itself the join.
func sideOf(b, s *ssa.BasicBlock) (join, pred *ssa.BasicBlock, body []ssa.Instruction, ok bool) {
	if len(s.Preds) == 1 && len(s.Instrs) >= 1 && len(s.Instrs) <= ifConvMaxInstrs {
		if _, isJump := s.Instrs[len(s.Instrs)-1].(*ssa.Jump); isJump {
			for _, in := range s.Instrs[:len(s.Instrs)-1] {
				if !pureInstr(in) {
					return s, b, nil, true // not convertible as pass-through; maybe it is the join
				}
			}
			return s.Succs[0], s, s.Instrs[:len(s.Instrs)-1], true
		}
	}
	return s, b, nil, true
}

func (ex *Exec) ifConvert(fr *frame, b *ssa.BasicBlock, c *Term) *ssa.BasicBlock {
	if ex.noIfConv {
		return nil
	}
	t, f := b.Succs[0], b.Succs[1]
	if t == f {
		return nil
	}
	jt, pt, bodyT, _ := sideOf(b, t)
	jf, pf, bodyF, _ := sideOf(b, f)
	var join *ssa.BasicBlock
	switch {
	case jt == jf && pt != b && pf != b: // diamond
		join = jt
	case pt != b && jt == f: // triangle: true side falls into the false successor
		join, pf, bodyF = f, b, nil
	case pf != b && jf == t: // triangle the other way
		join, pt, bodyT = t, b, nil
	default:
		return nil
	}
	if join == b || len(join.Instrs) == 0 {
		return nil
	}
	if _, ok := join.Instrs[0].(*ssa.Phi); !ok {
		return nil // nothing is merged: sides must have had effects elsewhere
	}
	// every predecessor edge of the join we use must be distinct
	idxT, idxF := -1, -1
	for i, p := range join.Preds {
		if p == pt && idxT < 0 {
			idxT = i
		} else if p == pf && idxF < 0 {
			idxF = i
		}
	}
	if idxT < 0 || idxF < 0 || idxT == idxF {
		return nil
	}
	// speculative evaluation of the pure side bodies
	ok := func() (ok bool) {
		saveSpec := ex.specMode
		ex.specMode = true
		th := ex.cur
		base := len(th.frames)
		depth := ex.depth
		defer func() {
			ex.specMode = saveSpec
			if r := recover(); r != nil {
				_, is := r.(specAbort)
				if pe, isPE := r.(*pathEnd); isPE && pe.kind == "unsupported" {
					is = true
				}
				if is {
					th.frames = th.frames[:base]
					ex.depth = depth
					ok = false
					return
				}
				panic(r)
			}
		}()
		for _, body := range [][]ssa.Instruction{bodyT, bodyF} {
			for _, in := range body {
				ex.steps++
				fr.curInstr = in
				ex.execInstr(fr, in)
			}
		}
		return true
	}()
	if !ok {
		return nil
	}
	// merge the phis
	var merged []Value
	var phis []*ssa.Phi
	for _, in := range join.Instrs {
		phi, isPhi := in.(*ssa.Phi)
		if !isPhi {
			break
		}
		vt := ex.get(fr, phi.Edges[idxT])
		vf := ex.get(fr, phi.Edges[idxF])
		m, ok := ex.mergeValue(c, vt, vf)
		if !ok {
			return nil
		}
		merged = append(merged, m)
		phis = append(phis, phi)
	}
	for i, phi := range phis {
		ex.set(fr, phi, merged[i])
	}
	fr.prev = pt
	return join
}
