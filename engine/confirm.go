package main

// Interpreter-level confirmation of a counterexample, for harnesses whose unit
// takes objects that cannot be built natively without a network peer
// (*quic.Conn, *quic.Stream, http3 server): the harness is re-executed with
// every draw pinned to its value in the solver's model; the violation counts as
// confirmed when the same assertion fails again on that (now essentially
// concrete) execution. This validates the model against the encoding and the
// path, not the engine against the Go compiler; harnesses that use it say so
// in their directive (replay=interp) and in the evidence.
//
// ConfirmSchedule does the same for counterexamples that hinge on a particular
// interleaving (the native replay cannot force the Go scheduler): the exact
// decision trace - thread switches included - is replayed with pinned draws.

import (
	"time"
)

func (e *Engine) ConfirmInterp(spec *HarnessSpec, v *Violation) (bool, string) {
	s2 := *spec
	s2.MaxPaths = 300
	h := e.runHarnessFrom(&s2, 1, time.Now().Add(2*time.Minute), v.Model, nil)
	for _, w := range h.Violations {
		if w.Kind == v.Kind && w.Msg == v.Msg {
			return true, "re-executed in the interpreter with all draws pinned to the model: the same assertion fails"
		}
	}
	if len(h.Unsupported) > 0 {
		return false, "interpreter replay hit an unsupported operation"
	}
	return false, "interpreter replay with pinned draws did not reproduce the failure"
}

func hasSchedChoice(v *Violation) bool {
	return len(v.Sched) > 0
}

func (e *Engine) ConfirmSchedule(spec *HarnessSpec, v *Violation) (bool, string) {
	s2 := *spec
	s2.MaxPaths = 1
	h := e.runHarnessFrom(&s2, 1, time.Now().Add(2*time.Minute), v.Model, v.Trace)
	for _, w := range h.Violations {
		if w.Kind == v.Kind && w.Msg == v.Msg {
			return true, "schedule-dependent: the exact decision trace (thread switches included) re-executed in the interpreter with pinned draws fails the same assertion; the native replay cannot force the Go scheduler"
		}
	}
	detail := ""
	for k, n := range h.Ends {
		detail += k + "=" + itoa(n) + " "
	}
	for m := range h.Unsupported {
		detail += " | " + firstLines(m, 3)
	}
	return false, "exact re-execution of the decision trace did not reproduce the failure (" + detail + ")"
}

func itoa(n int) string {
	if n == 0 {
		return "0"
	}
	s := ""
	neg := n < 0
	if neg {
		n = -n
	}
	for n > 0 {
		s = string(rune('0'+n%10)) + s
		n /= 10
	}
	if neg {
		s = "-" + s
	}
	return s
}
