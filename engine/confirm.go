package main

// Interpreter-level confirmation of a counterexample, for harnesses whose unit
// takes objects that cannot be built natively without a network peer
// (*quic.Conn, *quic.Stream, http3 server): the harness is re-executed with
// every draw pinned to its value in the solver's model; the violation counts as
// confirmed when the same assertion fails again on that (now essentially
// concrete) execution. This validates the model against the encoding and the
// path, not the engine against the Go compiler; harnesses that use it say so
// in their directive (replay=interp) and in the evidence.

import (
	"time"
)

func (e *Engine) ConfirmInterp(spec *HarnessSpec, v *Violation) (bool, string) {
	s2 := *spec
	s2.MaxPaths = 300
	h := e.runHarnessWith(&s2, 1, time.Now().Add(2*time.Minute), v.Model)
	for _, w := range h.Violations {
		if w.Kind == v.Kind && w.Msg == v.Msg {
			return true, "re-executed in the interpreter with all draws pinned to the model: the same assertion fails"
		}
	}
	if len(h.Unsupported) > 0 {
		return false, "interpreter replay hit an unsupported operation"
	}
	return false, "interpreter replay with pinned draws did not reproduce the failure"
}
