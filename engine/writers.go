package main

import (
	"go/types"
	"sort"
	"strings"

	"golang.org/x/tools/go/ssa"
	"golang.org/x/tools/go/ssa/ssautil"
)

// fieldWriters lists, from the SSA of the current tree, every function of the
// harness' package (harness functions excluded) that stores to - or lets escape
// the address of - field `field` of the struct type named `typ`. Inductive
// harnesses assert this list, so that a new writer of a field an invariant
// speaks about is noticed instead of silently bypassing the per-writer lemmas.
func (e *Engine) fieldWriters(pkg *ssa.Package, typ, field string) string {
	set := map[string]bool{}
	for fn := range ssautil.AllFunctions(e.prog) {
		if fn.Pkg != pkg || fn.Blocks == nil {
			continue
		}
		root := fn
		for root.Parent() != nil {
			root = root.Parent()
		}
		if strings.Contains(root.Name(), "ZZ_") || strings.HasPrefix(root.Name(), "zz") {
			continue
		}
		if pos := fn.Pos(); pos.IsValid() {
			if strings.Contains(e.prog.Fset.Position(pos).Filename, "zz_verif_") {
				continue
			}
		}
		for _, b := range fn.Blocks {
			for _, in := range b.Instrs {
				fa, ok := in.(*ssa.FieldAddr)
				if !ok {
					continue
				}
				pt, ok := fa.X.Type().Underlying().(*types.Pointer)
				if !ok {
					continue
				}
				named, ok := pt.Elem().(*types.Named)
				if !ok || named.Obj().Name() != typ {
					continue
				}
				st, ok := named.Underlying().(*types.Struct)
				if !ok || fa.Field >= st.NumFields() || st.Field(fa.Field).Name() != field {
					continue
				}
				for _, r := range *fa.Referrers() {
					switch r := r.(type) {
					case *ssa.Store:
						if r.Addr == fa {
							set[root.RelString(pkg.Pkg)] = true
						}
					case *ssa.UnOp:
						// load
					case *ssa.DebugRef:
					default:
						set["&"+root.RelString(pkg.Pkg)] = true
					}
				}
			}
		}
	}
	var out []string
	for k := range set {
		out = append(out, k)
	}
	sort.Strings(out)
	return strings.Join(out, ",")
}
