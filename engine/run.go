package main

import (
	"fmt"
	"strings"
	"go/token"
	"os"
	"runtime/debug"
	"sync"
	"time"

	"golang.org/x/tools/go/ssa"
)

const (
	tokenADD = token.ADD
	tokenSUB = token.SUB
	tokenAND = token.AND
	tokenOR  = token.OR
)

func (ex *Exec) callFunctionNoIntrinsic(fn *ssa.Function, args []Value, bindings []Value) Value {
	ex.skipIntrinsicOnce = fn
	return ex.callFunction(fn, args, bindings)
}

// spawnWith starts f() in a new thread and runs after() when it returns.
func (ex *Exec) spawnWith(f *FuncV, after func()) {
	ex.afterHooks = append(ex.afterHooks, after)
	idx := len(ex.afterHooks) - 1
	t := ex.spawn(f.fn, nil, f.bindings)
	t.afterIdx = idx + 1
}

// spawnQuiet starts a thread without a scheduling point (used from timer callbacks).
func (ex *Exec) spawnQuiet(fn *ssa.Function, args, bindings []Value) {
	save := ex.preemptBound
	ex.preemptBound = -1
	ex.spawn(fn, args, bindings)
	ex.preemptBound = save
}

// RunHarness explores all paths of one harness with the given number of workers.
func (e *Engine) RunHarness(spec *HarnessSpec, workers int, deadline time.Time) *HarnessRun {
	return e.runHarnessWith(spec, workers, deadline, nil)
}

func (e *Engine) runHarnessWith(spec *HarnessSpec, workers int, deadline time.Time, pinned Model) *HarnessRun {
	return e.runHarnessFrom(spec, workers, deadline, pinned, nil)
}

func (e *Engine) runHarnessFrom(spec *HarnessSpec, workers int, deadline time.Time, pinned Model, prefix []Decision) *HarnessRun {
	h := &HarnessRun{Name: spec.Name, Fn: spec.Fn, IntMode: spec.IntMode, Ends: map[string]int{}, Unsupported: map[string]int{},
		Covers: map[string]int{}, Stubs: map[string]bool{}, Funcs: map[string]bool{}, MaxPaths: spec.MaxPaths, Kind: spec.Kind}
	h.cond = sync.NewCond(&h.mu)
	h.work = []workItem{{prefix: prefix}}
	var wg sync.WaitGroup
	if workers < 1 {
		workers = 1
	}
	for w := 0; w < workers; w++ {
		wg.Add(1)
		go func(w int) {
			defer wg.Done()
			tt := NewTermTable()
			var logw *os.File
			if e.verbose && w == 0 {
				logw, _ = os.Create(fmt.Sprintf("/tmp/gosmt-%s.smt2", spec.Name))
			}
			var sol *Solver
			var err error
			if logw != nil {
				sol, err = NewSolver(e.solverName, tt, e.timeoutMs, e.seed, logw)
			} else {
				sol, err = NewSolver(e.solverName, tt, e.timeoutMs, e.seed, nil)
			}
			if err != nil {
				h.mu.Lock()
				h.Notes = append(h.Notes, "solver start failed: "+err.Error())
				h.stopAll = true
				h.mu.Unlock()
				h.cond.Broadcast()
				return
			}
			defer sol.Close()
			ex := &Exec{eng: e, tt: tt, sol: sol, intMode: spec.IntMode, h: h, fnsHit: map[*ssa.Function]bool{}, stubsHit: map[string]bool{}}
			ex.replayModel = pinned
			ex.pinQuiet = pinned != nil && prefix != nil
			for {
				item, ok := h.popWork()
				if !ok {
					break
				}
				if time.Now().After(deadline) {
					h.mu.Lock()
					h.Truncated = true
					h.Notes = append(h.Notes, "time budget exhausted; exploration truncated")
					h.stopAll = true
					h.mu.Unlock()
					h.donePath()
					break
				}
				ex.runPath(spec, item.prefix)
				h.donePath()
				if sol.dead {
					h.mu.Lock()
					h.Notes = append(h.Notes, "solver died: "+sol.lastErr)
					h.stopAll = true
					h.mu.Unlock()
					h.cond.Broadcast()
					break
				}
			}
			h.mu.Lock()
			h.Solver.Sat += sol.Stats.Sat
			h.Solver.Unsat += sol.Stats.Unsat
			h.Solver.Unknown += sol.Stats.Unknown
			h.Solver.Errors += sol.Stats.Errors
			h.Solver.Queries += sol.Stats.Queries
			h.Solver.Time += sol.Stats.Time
			for f := range ex.fnsHit {
				if f.Pkg != nil {
					h.Funcs[f.String()] = true
				}
			}
			for s := range ex.stubsHit {
				h.Stubs[s] = true
			}
			h.mu.Unlock()
		}(w)
	}
	wg.Wait()
	return h
}

func (ex *Exec) runPath(spec *HarnessSpec, prefix []Decision) {
	ex.resetPath(prefix)
	ex.preemptBound = spec.Preempt
	ex.noIfConv = spec.Opts["ifconv"] == "off"
	// fp=abstract over-approximates while exploring; a counterexample is
	// confirmed by re-execution with every draw pinned, where all floating-point
	// operands are constants and are computed exactly
	ex.fpAbstract = spec.Opts["fp"] == "abstract" && ex.replayModel == nil
	ex.schedAll = spec.Opts["sched"] == "all"
	ex.noModels = strings.Split(spec.Opts["nomodel"], ",")
	ex.specMode = false
	ex.inModel = 0
	ex.autoTime = true
	ex.symAlloc = false
	ex.mapPerm = false
	ex.mapFixed = false
	ex.randQueue = nil
	ex.schedAtomics = spec.Opts["atomics"] == "sched" // atomic operations are scheduling points too
	ex.hasRefs = false
	ex.syncTab = nil
	ex.obsTerms = nil
	ex.envDraws = nil
	ex.afterHooks = nil
	ex.sch = &schedState{}
	ex.unwind = spec.Unwind
	main := ex.newThread("main")
	main.isMain = true
	main.started = true
	ex.cur = main
	var endKind, endMsg string
	func() {
		defer func() {
			r := recover()
			switch r := r.(type) {
			case nil:
				endKind = "done"
			case *pathEnd:
				endKind, endMsg = r.kind, r.msg
			case *goPanic:
				ex.uncaughtPanic(r)
				endKind, endMsg = "panic", ex.panicMessage(r)
			case *enginePanic:
				endKind, endMsg = "engine", r.String()
			default:
				endKind, endMsg = "engine", fmt.Sprintf("%v\n%s", r, debug.Stack())
			}
		}()
		// run package initialisers of the harness package first
		if spec.Fn.Pkg != nil {
			ex.ensureInit(spec.Fn.Pkg)
		}
		ex.callFunction(spec.Fn, nil, nil)
	}()
	ex.killThreads()
	h := ex.h
	// a deadlock is a finding of its own
	if endKind == "deadlock" {
		res, m := ex.modelNow()
		if res != Unsat {
			ex.recordViolation("deadlock", endMsg, "", m)
		}
	}
	h.mu.Lock()
	h.Paths++
	h.Ends[endKind]++
	h.Steps += ex.steps
	h.Unknowns += ex.unknowns
	if endKind == "unsupported" || endKind == "engine" {
		h.Unsupported[endMsg]++
	}
	if endKind == "unwind" || endKind == "steps" {
		h.UnwindFail++
		h.Notes = append(h.Notes, endKind+": "+endMsg)
	}
	if endKind == "done" || endKind == "panic" || endKind == "stop" || endKind == "deadlock" {
		for c := range ex.covers {
			h.Covers[c]++
		}
	}
	wantSample := len(h.Samples) < 6 && endKind == "done"
	h.mu.Unlock()
	if wantSample {
		// a concrete model of this path, as a sample of what was explored
		if res, m := ex.modelNow(); res == Sat {
			s := map[string]string{}
			for _, d := range ex.draws {
				s[d.Name] = drawString(d, m)
			}
			s["_decisions"] = fmt.Sprint(len(ex.trace))
			h.mu.Lock()
			if len(h.Samples) < 6 {
				h.Samples = append(h.Samples, s)
			}
			h.mu.Unlock()
		}
	}
}

func drawString(d Draw, m Model) string {
	switch d.Kind {
	case "bytes":
		out := make([]byte, 0, len(d.vars))
		for _, v := range d.vars {
			out = append(out, byte(modelUint(m, v)))
		}
		return fmt.Sprintf("%x", out)
	case "bool":
		if len(d.vars) == 1 {
			if c, ok := m[d.vars[0].name]; ok && c.u == 1 {
				return "true"
			}
		}
		return "false"
	case "opaque":
		return "<opaque>"
	case "f64":
		if c, ok := m[d.vars[0].name]; ok {
			return fmt.Sprint(c.f)
		}
		return "0"
	}
	if len(d.vars) == 1 {
		if c, ok := m[d.vars[0].name]; ok {
			if c.sort.K == SInt {
				return c.bi.String()
			}
			return fmt.Sprint(c.u)
		}
	}
	return "0"
}

func modelUint(m Model, v *Term) uint64 {
	if c, ok := m[v.name]; ok {
		if c.sort.K == SInt {
			return c.bi.Uint64()
		}
		return c.u
	}
	return 0
}
