package main

// Constant evaluation of the conversion operators (used when a term is
// evaluated under a cached model).

import (
	"fmt"
	"math"
	"math/big"
	"strings"
)

func init() {
	toF := func(tt *TermTable, t *Term, a []*Term) *Term {
		x := a[0]
		if !x.isConst {
			return tt.app(t.op, t.sort, a...)
		}
		var f float64
		switch x.sort.K {
		case SBV:
			if strings.Contains(t.op, "to_fp_unsigned") {
				f = float64(x.u)
			} else {
				f = float64(sext(x.u, x.sort.W))
			}
		case SF64, SF32:
			f = x.f
		case SInt:
			f, _ = new(big.Float).SetInt(x.bi).Float64()
		default:
			return tt.app(t.op, t.sort, a...)
		}
		if t.sort.K == SF32 {
			return tt.F32(float32(f))
		}
		return tt.F64(f)
	}
	for _, op := range []string{
		"(_ to_fp 11 53) RNE", "(_ to_fp 8 24) RNE",
		"(_ to_fp_unsigned 11 53) RNE", "(_ to_fp_unsigned 8 24) RNE",
	} {
		convOps[op] = toF
	}
	convOps["to_real"] = func(tt *TermTable, t *Term, a []*Term) *Term {
		// carrier only: keep the integer constant, to_fp above reads it
		if a[0].isConst {
			return a[0]
		}
		return tt.app(t.op, t.sort, a...)
	}
	for _, w := range []int{8, 16, 32, 64} {
		w := w
		convOps[fmt.Sprintf("(_ fp.to_sbv %d) RTZ", w)] = func(tt *TermTable, t *Term, a []*Term) *Term {
			if !a[0].isConst {
				return tt.app(t.op, t.sort, a...)
			}
			f := math.Trunc(a[0].f)
			if math.IsNaN(f) || f < -math.Ldexp(1, w-1) || f >= math.Ldexp(1, w-1) {
				return tt.app(t.op, t.sort, a...) // unspecified in SMT-LIB
			}
			return tt.BV(uint64(int64(f)), w)
		}
		convOps[fmt.Sprintf("(_ fp.to_ubv %d) RTZ", w)] = func(tt *TermTable, t *Term, a []*Term) *Term {
			if !a[0].isConst {
				return tt.app(t.op, t.sort, a...)
			}
			f := math.Trunc(a[0].f)
			if math.IsNaN(f) || f < 0 || f >= math.Ldexp(1, w) {
				return tt.app(t.op, t.sort, a...)
			}
			return tt.BV(uint64(f), w)
		}
		convOps[fmt.Sprintf("(_ int2bv %d)", w)] = func(tt *TermTable, t *Term, a []*Term) *Term {
			if !a[0].isConst {
				return tt.app(t.op, t.sort, a...)
			}
			m := new(big.Int).Mod(a[0].bi, pow2(w))
			return tt.BV(m.Uint64(), w)
		}
	}
	convOps["bv2nat"] = func(tt *TermTable, t *Term, a []*Term) *Term {
		if !a[0].isConst {
			return tt.app(t.op, t.sort, a...)
		}
		return tt.Int(new(big.Int).SetUint64(a[0].u))
	}
}
