package main

import (
	"fmt"
	"go/types"
	"math/big"
	"strconv"
	"strings"

	"golang.org/x/tools/go/ssa"
)

type syncState struct {
	locked      bool
	owner       int
	readers     int
	wg          int64
	onceDone    bool
	onceRunning bool
	m           *MapV
	val         Value
	hasVal      bool
	pool        []Value // sync.Pool: items put back, most recent last
}

type uniqueEnt struct {
	typ types.Type
	val Value
	ptr PtrV
}

type guardDecl struct {
	data PtrV
	mu   PtrV
}

func (ex *Exec) syncOf(p PtrV) *syncState {
	if p.obj == nil {
		ex.runtimePanic("invalid memory address or nil pointer dereference (sync primitive)")
	}
	key := p.String()
	if ex.syncTab == nil {
		ex.syncTab = map[string]*syncState{}
	}
	s, ok := ex.syncTab[key]
	if !ok {
		s = &syncState{owner: -1}
		ex.syncTab[key] = s
	}
	return s
}

func (ex *Exec) noteAccess(p PtrV, write bool) {
	// verifRacePoints: every access (one scheduling point per instruction) to a
	// designated object is a place where another goroutine may run, so unlocked
	// read-modify-write sequences on it can be torn
	if len(ex.raceObjs) > 0 && len(ex.threads) > 1 && ex.cur != nil && !ex.inHarnessFrame() {
		for _, o := range ex.raceObjs {
			if o == p.obj && (ex.raceStep != ex.steps || ex.raceThread != ex.cur.id) {
				ex.raceStep, ex.raceThread = ex.steps, ex.cur.id
				ex.schedPoint("mem")
				break
			}
		}
	}
	if len(ex.guards) == 0 {
		return
	}
	for _, g := range ex.guards {
		if g.data.obj != p.obj || len(p.path) < len(g.data.path) || !samePath(g.data.path, p.path[:len(g.data.path)]) {
			continue
		}
		s := ex.syncOf(g.mu)
		ok := false
		if write {
			ok = s.locked && s.owner == ex.cur.id
		} else {
			ok = (s.locked && s.owner == ex.cur.id) || s.readers > 0
		}
		if !ok && !ex.inHarnessFrame() {
			res, m := ex.modelNow()
			if res != Unsat {
				kind := "read"
				if write {
					kind = "write"
				}
				ex.recordViolation("assert", "lock discipline: "+kind+" of guarded location "+p.String()+" without holding its mutex", ex.stackString(), m)
			}
			ex.end("stop", "lock discipline violated")
		}
	}
}

// inHarnessFrame reports whether the innermost frame belongs to a harness file
// (harness code may inspect guarded state freely at quiescent points).
func (ex *Exec) inHarnessFrame() bool {
	if ex.cur == nil || len(ex.cur.frames) == 0 {
		return true
	}
	fr := ex.cur.frames[len(ex.cur.frames)-1]
	return ex.eng.isHarnessFn(fr.fn)
}

func (e *Engine) isHarnessFn(fn *ssa.Function) bool {
	for f := fn; f != nil; f = f.Parent() {
		fn = f
	}
	pos := fn.Pos()
	if !pos.IsValid() {
		return false
	}
	name := e.prog.Fset.Position(pos).Filename
	return strings.Contains(name, "zz_verif_")
}

func structFieldIndex(t types.Type, name string) int {
	st := t.Underlying().(*types.Struct)
	for i := 0; i < st.NumFields(); i++ {
		if st.Field(i).Name() == name {
			return i
		}
	}
	panic("no field " + name + " in " + t.String())
}

func (ex *Exec) strArg(v Value) string {
	s := v.(*StrV)
	if !s.conc {
		ex.unsupported("symbolic string where a literal is required")
	}
	return s.s
}

func (ex *Exec) boolConst(v Value) bool {
	t := v.(*Term)
	if !t.isConst {
		return ex.branch(t)
	}
	return t.u == 1
}

func (ex *Exec) bytesSlice(bs []*Term) SliceV {
	o := ex.newArrObj(tUint8, len(bs), "bytes")
	for i, b := range bs {
		o.elems[i] = b
	}
	n := ex.intc(int64(len(bs)))
	return SliceV{arr: o, off: ex.intc(0), len: n, cap: n}
}

func (ex *Exec) sliceBytes(s SliceV) []*Term {
	n := int(ex.termInt64(ex.concretize(s.len, "byte slice length")))
	out := make([]*Term, n)
	for i := range out {
		out[i] = ex.load(ex.sliceElemPtr(s, ex.intc(int64(i)))).(*Term)
	}
	return out
}

func (ex *Exec) rangeAssume(v *Term, lo, hi *Term, signed bool) {
	if ex.intMode && lo.isConst && hi.isConst && v.op == "var" {
		ex.tt.varRange[v] = [2]*big.Int{lo.bi, hi.bi}
		ex.tt.bnd = nil
	}
	ex.addPC(ex.cmpInt("<=", lo, v, signed))
	ex.addPC(ex.cmpInt("<=", v, hi, signed))
}

// harness API, keyed by bare function name
var harnessAPI = map[string]intrinsicFn{}

func init() {
	harnessAPI["verifInt"] = func(ex *Exec, fn *ssa.Function, a []Value) Value {
		v := ex.newSymInt(ex.strArg(a[0]), tInt, true)
		ex.rangeAssume(v, a[1].(*Term), a[2].(*Term), true)
		ex.pathAlive()
		return v
	}
	harnessAPI["verifInt64"] = harnessAPI["verifInt"]
	harnessAPI["verifUint64"] = func(ex *Exec, fn *ssa.Function, a []Value) Value {
		v := ex.newSymInt(ex.strArg(a[0]), tUint64, true)
		ex.rangeAssume(v, a[1].(*Term), a[2].(*Term), false)
		ex.pathAlive()
		return v
	}
	harnessAPI["verifUint32"] = func(ex *Exec, fn *ssa.Function, a []Value) Value {
		return ex.newSymInt(ex.strArg(a[0]), types.Typ[types.Uint32], true)
	}
	harnessAPI["verifUint16"] = func(ex *Exec, fn *ssa.Function, a []Value) Value {
		return ex.newSymInt(ex.strArg(a[0]), types.Typ[types.Uint16], true)
	}
	harnessAPI["verifByte"] = func(ex *Exec, fn *ssa.Function, a []Value) Value {
		return ex.newSymInt(ex.strArg(a[0]), tUint8, true)
	}
	harnessAPI["verifBool"] = func(ex *Exec, fn *ssa.Function, a []Value) Value {
		return ex.newSymBool(ex.strArg(a[0]), true)
	}
	harnessAPI["verifBytes"] = func(ex *Exec, fn *ssa.Function, a []Value) Value {
		n := ex.termInt64(ex.concretize(a[1].(*Term), "verifBytes length"))
		return ex.bytesSlice(ex.newSymBytes(ex.strArg(a[0]), int(n), true))
	}
	harnessAPI["verifString"] = func(ex *Exec, fn *ssa.Function, a []Value) Value {
		n := ex.termInt64(ex.concretize(a[1].(*Term), "verifString length"))
		return ex.mkStr(ex.newSymBytes(ex.strArg(a[0]), int(n), true))
	}
	harnessAPI["verifFloat64"] = func(ex *Exec, fn *ssa.Function, a []Value) Value {
		name := ex.newVarName(ex.strArg(a[0]))
		v := ex.tt.Var(name, F64Sort)
		ex.pathVars = append(ex.pathVars, v)
		ex.draws = append(ex.draws, Draw{Name: name, Kind: "f64", vars: []*Term{v}})
		ex.pin(v)
		return v
	}
	harnessAPI["verifAssume"] = func(ex *Exec, fn *ssa.Function, a []Value) Value {
		c := a[0].(*Term)
		if c.isConst {
			if c.u == 0 {
				ex.end("infeasible", "assume false")
			}
			return nil
		}
		ex.addPC(c)
		ex.pathAlive()
		return nil
	}
	harnessAPI["verifAssert"] = func(ex *Exec, fn *ssa.Function, a []Value) Value {
		ex.assertCond(a[0].(*Term), ex.strArg(a[1]))
		return nil
	}
	harnessAPI["verifCover"] = func(ex *Exec, fn *ssa.Function, a []Value) Value {
		ex.covers[ex.strArg(a[0])] = true
		return nil
	}
	harnessAPI["verifConcretize"] = func(ex *Exec, fn *ssa.Function, a []Value) Value {
		return ex.concretize(a[0].(*Term), "verifConcretize")
	}
	harnessAPI["verifChoice"] = func(ex *Exec, fn *ssa.Function, a []Value) Value {
		v := ex.newSymInt(ex.strArg(a[0]), tInt, true)
		ex.rangeAssume(v, ex.intc(0), ex.subInt(a[1].(*Term), ex.intc(1)), true)
		return ex.concretize(v, "verifChoice")
	}
	harnessAPI["verifSymAlloc"] = func(ex *Exec, fn *ssa.Function, a []Value) Value {
		ex.symAlloc = ex.boolConst(a[0])
		return nil
	}
	harnessAPI["verifMapPerm"] = func(ex *Exec, fn *ssa.Function, a []Value) Value {
		ex.mapPerm = ex.boolConst(a[0])
		return nil
	}
	harnessAPI["verifOpaqueBytes"] = func(ex *Exec, fn *ssa.Function, a []Value) Value {
		n := a[1].(*Term)
		name := ex.newVarName(ex.strArg(a[0]))
		arr := ex.tt.Var(name, ex.arrSort())
		ex.draws = append(ex.draws, Draw{Name: name, Kind: "opaque", vars: nil})
		o := ex.newSymBytesObj(n, arr)
		return SliceV{arr: o, off: ex.intc(0), len: n, cap: n}
	}
	harnessAPI["verifOpaqueString"] = func(ex *Exec, fn *ssa.Function, a []Value) Value {
		n := a[1].(*Term)
		name := ex.newVarName(ex.strArg(a[0]))
		arr := ex.tt.Var(name, ex.arrSort())
		ex.draws = append(ex.draws, Draw{Name: name, Kind: "opaque", vars: nil})
		return &StrV{opaque: true, n: n, arr: arr}
	}
	harnessAPI["verifObserveInt"] = func(ex *Exec, fn *ssa.Function, a []Value) Value {
		ex.observed = append(ex.observed, ex.strArg(a[0])+"="+ex.tt.Show(a[1].(*Term)))
		ex.obsTerms = append(ex.obsTerms, obsRec{ex.strArg(a[0]), []*Term{a[1].(*Term)}})
		return nil
	}
	harnessAPI["verifObserveBytes"] = func(ex *Exec, fn *ssa.Function, a []Value) Value {
		ex.obsTerms = append(ex.obsTerms, obsRec{ex.strArg(a[0]), ex.sliceBytes(a[1].(SliceV))})
		return nil
	}
	harnessAPI["verifNow"] = func(ex *Exec, fn *ssa.Function, a []Value) Value { return ex.now() }
	harnessAPI["verifAdvance"] = func(ex *Exec, fn *ssa.Function, a []Value) Value {
		ex.advanceTime(a[0].(*Term))
		return nil
	}
	harnessAPI["verifQuiesce"] = func(ex *Exec, fn *ssa.Function, a []Value) Value {
		return ex.intc(int64(ex.quiesce()))
	}
	harnessAPI["verifPreemptBound"] = func(ex *Exec, fn *ssa.Function, a []Value) Value {
		ex.preemptBound = int(ex.termInt64(a[0].(*Term)))
		return nil
	}
	harnessAPI["verifAutoTime"] = func(ex *Exec, fn *ssa.Function, a []Value) Value {
		ex.autoTime = ex.boolConst(a[0])
		return nil
	}
	// verifRacePoints(b): accesses to b's backing array become scheduling points
	harnessAPI["verifRacePoints"] = func(ex *Exec, fn *ssa.Function, a []Value) Value {
		ex.raceObjs = append(ex.raceObjs, a[0].(SliceV).arr)
		return nil
	}
	harnessAPI["verifGuardedBy"] = func(ex *Exec, fn *ssa.Function, a []Value) Value {
		d := a[0].(IfaceV).val.(PtrV)
		m := a[1].(IfaceV).val.(PtrV)
		ex.guards = append(ex.guards, guardDecl{data: d, mu: m})
		return nil
	}
	harnessAPI["verifMaxAlloc"] = func(ex *Exec, fn *ssa.Function, a []Value) Value {
		// largest make() size requested so far on this path (term)
		var best *Term = ex.intc(0)
		for _, t := range ex.allocLog {
			best = ex.tt.Ite(ex.cmpInt("<", best, t, true), t, best)
		}
		return best
	}
	// verifUF(name string, in []byte, outLen int) []byte : uninterpreted function
	harnessAPI["verifUF"] = func(ex *Exec, fn *ssa.Function, a []Value) Value {
		name := ex.strArg(a[0])
		in := ex.sliceBytes(a[1].(SliceV))
		n := int(ex.termInt64(ex.concretize(a[2].(*Term), "verifUF outLen")))
		return ex.bytesSlice(ex.ufBytes(name, in, n))
	}
	// verifRandQueue(b): the next crypto/rand reads are served from b (then symbolic again)
	harnessAPI["verifRandQueue"] = func(ex *Exec, fn *ssa.Function, a []Value) Value {
		ex.randQueue = append(ex.randQueue, ex.sliceBytes(a[0].(SliceV))...)
		return nil
	}
	harnessAPI["verifMapOrder"] =func(ex *Exec, fn *ssa.Function, a []Value) Value {
		ex.mapFixed = !ex.boolConst(a[0])
		return nil
	}
	harnessAPI["verifThorough"] =func(ex *Exec, fn *ssa.Function, a []Value) Value {
		return ex.tt.Bool(ex.eng.tier == "thorough")
	}
	// verifWriters(type, field) string : functions of this package that write the field (from the SSA of the current tree)
	harnessAPI["verifWriters"] = func(ex *Exec, fn *ssa.Function, a []Value) Value {
		return concStr(ex.eng.fieldWriters(fn.Pkg, ex.strArg(a[0]), ex.strArg(a[1])))
	}
	harnessAPI["verifIsSymbolic"] = func(ex *Exec, fn *ssa.Function, a []Value) Value {
		return ex.tt.Bool(true)
	}
}

type obsRec struct {
	label string
	vals  []*Term
}

// ufBytes applies an uninterpreted function family name_<inlen>_<i> to the input bytes.
func (ex *Exec) ufBytes(name string, in []*Term, n int) []*Term {
	out := make([]*Term, n)
	so := ex.intSortFor(tUint8)
	for i := range out {
		fname := fmt.Sprintf("uf:%s_%d_%d", name, len(in), i)
		if len(in) == 0 {
			out[i] = ex.tt.Var(fname[3:], so)
		} else {
			out[i] = ex.tt.app(fname, so, in...)
		}
		if ex.intMode {
			ex.addPC(ex.tt.IntCmp("<=", ex.tt.Int64(0), out[i]))
			ex.addPC(ex.tt.IntCmp("<=", out[i], ex.tt.Int64(255)))
		}
	}
	ex.noteStub("uninterpreted:" + name)
	return out
}

// pathAlive ends the path when the path condition became unsatisfiable.
func (ex *Exec) pathAlive() {
	if r, _ := ex.solve(nil, nil, false); r == Unsat {
		ex.end("infeasible", "assumption unsatisfiable")
	}
}

func (ex *Exec) assertCond(c *Term, msg string) {
	ex.h.mu.Lock()
	ex.h.Asserts++
	ex.h.mu.Unlock()
	if c.isConst && c.u == 1 {
		ex.h.mu.Lock()
		ex.h.AssertsOK++
		ex.h.mu.Unlock()
		return
	}
	res, m := ex.modelNow(ex.tt.Not(c))
	switch res {
	case Unsat:
		ex.h.mu.Lock()
		ex.h.AssertsOK++
		ex.h.mu.Unlock()
		return
	case Unknown:
		ex.h.mu.Lock()
		ex.h.AssertsUnk++
		ex.h.Notes = append(ex.h.Notes, "assert undecided (solver unknown): "+msg)
		ex.h.mu.Unlock()
		ex.unknowns++
	case Sat:
		ex.recordViolation("assert", msg, ex.stackString(), m)
	}
	// continue on the side where the assertion holds
	ex.addPC(c)
	if r, _ := ex.solve(nil, nil, false); r == Unsat {
		ex.end("stop", "assertion fails on every continuation")
	}
}

// ---------- registration of stdlib / runtime intrinsics ----------

func registerIntrinsics(e *Engine) {
	I := e.intrinsics
	nop := func(ex *Exec, fn *ssa.Function, a []Value) Value { return nil }
	ident := func(ex *Exec, fn *ssa.Function, a []Value) Value { return a[0] }

	for _, n := range []string{
		"runtime.KeepAlive", "runtime.SetFinalizer", "runtime.Gosched", "runtime.GC",
		"internal/race.Acquire", "internal/race.Release", "internal/race.ReleaseMerge", "internal/race.Disable", "internal/race.Enable",
		"internal/race.Read", "internal/race.Write", "internal/race.ReadRange", "internal/race.WriteRange",
		"(*internal/godebug.Setting).IncNonDefault", "log.Printf", "log.Println", "log.Print",
		"fmt.Println", "fmt.Printf", "fmt.Print", "fmt.Fprintf", "fmt.Fprintln", "fmt.Fprint",
		"(*sync.noCopy).Lock", "(*sync.noCopy).Unlock", "runtime.AddCleanup",
		"internal/runtime/sys.Prefetch", "os.Exit",
	} {
		I[n] = nop
	}
	I["internal/abi.NoEscape"] = ident
	I["internal/abi.Escape"] = ident
	I["(*internal/godebug.Setting).Value"] = func(ex *Exec, fn *ssa.Function, a []Value) Value { return concStr("") }
	I["os.Getenv"] = func(ex *Exec, fn *ssa.Function, a []Value) Value { return concStr("") }
	I["internal/race.Errors"] = func(ex *Exec, fn *ssa.Function, a []Value) Value { return ex.intc(0) }

	// ---- bytealg ----
	idxByte := func(ex *Exec, bs []*Term, c *Term) Value {
		// first i with bs[i]==c else -1
		res := ex.intc(-1)
		for i := len(bs) - 1; i >= 0; i-- {
			res = ex.tt.Ite(ex.tt.Eq(bs[i], c), ex.intc(int64(i)), res)
		}
		return res
	}
	I["internal/bytealg.IndexByte"] = func(ex *Exec, fn *ssa.Function, a []Value) Value {
		return idxByte(ex, ex.sliceBytes(a[0].(SliceV)), a[1].(*Term))
	}
	I["internal/bytealg.IndexByteString"] = func(ex *Exec, fn *ssa.Function, a []Value) Value {
		return idxByte(ex, ex.strBytes(a[0].(*StrV)), a[1].(*Term))
	}
	lastIdxByte := func(ex *Exec, bs []*Term, c *Term) Value {
		res := ex.intc(-1)
		for i := 0; i < len(bs); i++ {
			res = ex.tt.Ite(ex.tt.Eq(bs[i], c), ex.intc(int64(i)), res)
		}
		return res
	}
	I["internal/bytealg.LastIndexByte"] = func(ex *Exec, fn *ssa.Function, a []Value) Value {
		return lastIdxByte(ex, ex.sliceBytes(a[0].(SliceV)), a[1].(*Term))
	}
	I["internal/bytealg.LastIndexByteString"] = func(ex *Exec, fn *ssa.Function, a []Value) Value {
		return lastIdxByte(ex, ex.strBytes(a[0].(*StrV)), a[1].(*Term))
	}
	count := func(ex *Exec, bs []*Term, c *Term) Value {
		res := ex.intc(0)
		for _, b := range bs {
			res = ex.addInt(res, ex.tt.Ite(ex.tt.Eq(b, c), ex.intc(1), ex.intc(0)))
		}
		return res
	}
	I["internal/bytealg.Count"] = func(ex *Exec, fn *ssa.Function, a []Value) Value {
		return count(ex, ex.sliceBytes(a[0].(SliceV)), a[1].(*Term))
	}
	I["internal/bytealg.CountString"] = func(ex *Exec, fn *ssa.Function, a []Value) Value {
		return count(ex, ex.strBytes(a[0].(*StrV)), a[1].(*Term))
	}
	I["internal/bytealg.Equal"] = func(ex *Exec, fn *ssa.Function, a []Value) Value {
		x, y := ex.sliceToStr(a[0].(SliceV)), ex.sliceToStr(a[1].(SliceV))
		return ex.strEq(x, y)
	}
	cmp3 := func(ex *Exec, x, y *StrV) Value {
		lt := ex.strLess(x, y, false)
		eq := ex.strEq(x, y)
		return ex.tt.Ite(eq, ex.intc(0), ex.tt.Ite(lt, ex.intc(-1), ex.intc(1)))
	}
	I["internal/bytealg.Compare"] = func(ex *Exec, fn *ssa.Function, a []Value) Value {
		return cmp3(ex, ex.sliceToStr(a[0].(SliceV)), ex.sliceToStr(a[1].(SliceV)))
	}
	I["internal/bytealg.CompareString"] = func(ex *Exec, fn *ssa.Function, a []Value) Value {
		return cmp3(ex, a[0].(*StrV), a[1].(*StrV))
	}
	I["runtime.cmpstring"] = I["internal/bytealg.CompareString"]
	strIndex := func(ex *Exec, hs, nd []*Term) Value {
		n, m := len(hs), len(nd)
		res := ex.intc(-1)
		for i := n - m; i >= 0; i-- {
			c := ex.tt.Bool(true)
			for j := 0; j < m; j++ {
				c = ex.tt.And(c, ex.tt.Eq(hs[i+j], nd[j]))
			}
			res = ex.tt.Ite(c, ex.intc(int64(i)), res)
		}
		return res
	}
	I["internal/bytealg.Index"] = func(ex *Exec, fn *ssa.Function, a []Value) Value {
		return strIndex(ex, ex.sliceBytes(a[0].(SliceV)), ex.sliceBytes(a[1].(SliceV)))
	}
	I["internal/bytealg.IndexString"] = func(ex *Exec, fn *ssa.Function, a []Value) Value {
		return strIndex(ex, ex.strBytes(a[0].(*StrV)), ex.strBytes(a[1].(*StrV)))
	}
	// strings.Index / bytes.Index as a whole (avoid Rabin-Karp hashing over symbolic bytes)
	I["strings.Index"] = I["internal/bytealg.IndexString"]
	I["bytes.Index"] = I["internal/bytealg.Index"]
	I["strings.Contains"] = func(ex *Exec, fn *ssa.Function, a []Value) Value {
		r := strIndex(ex, ex.strBytes(a[0].(*StrV)), ex.strBytes(a[1].(*StrV))).(*Term)
		return ex.cmpInt("<=", ex.intc(0), r, true)
	}
	I["internal/bytealg.MakeNoZero"] = func(ex *Exec, fn *ssa.Function, a []Value) Value {
		return ex.makeSlice(tUint8, a[0].(*Term), a[0].(*Term), tInt, tInt)
	}
	I["internal/stringslite.Clone"] = ident
	I["strings.Clone"] = ident
	I["internal/bytealg.IndexRabinKarp"] = nil
	delete(I, "internal/bytealg.IndexRabinKarp")

	// ---- sync ----
	I["(*sync.Mutex).Lock"] = func(ex *Exec, fn *ssa.Function, a []Value) Value {
		p := a[0].(PtrV)
		s := ex.syncOf(p)
		ex.schedPoint("Lock")
		ex.blockUntil(func() bool { return !s.locked && s.readers == 0 }, "Mutex.Lock")
		s.locked = true
		s.owner = ex.cur.id
		return nil
	}
	I["(*sync.Mutex).TryLock"] = func(ex *Exec, fn *ssa.Function, a []Value) Value {
		s := ex.syncOf(a[0].(PtrV))
		ex.schedPoint("TryLock")
		if s.locked || s.readers > 0 {
			return ex.tt.Bool(false)
		}
		s.locked = true
		s.owner = ex.cur.id
		return ex.tt.Bool(true)
	}
	I["(*sync.Mutex).Unlock"] = func(ex *Exec, fn *ssa.Function, a []Value) Value {
		s := ex.syncOf(a[0].(PtrV))
		if !s.locked {
			ex.fatal("sync: unlock of unlocked mutex")
		}
		s.locked = false
		s.owner = -1
		ex.schedPoint("Unlock")
		return nil
	}
	I["(*sync.RWMutex).Lock"] = I["(*sync.Mutex).Lock"]
	I["(*sync.RWMutex).Unlock"] = I["(*sync.Mutex).Unlock"]
	I["(*sync.RWMutex).TryLock"] = I["(*sync.Mutex).TryLock"]
	I["(*sync.RWMutex).RLock"] = func(ex *Exec, fn *ssa.Function, a []Value) Value {
		s := ex.syncOf(a[0].(PtrV))
		ex.schedPoint("RLock")
		ex.blockUntil(func() bool { return !s.locked }, "RWMutex.RLock")
		s.readers++
		return nil
	}
	I["(*sync.RWMutex).RUnlock"] = func(ex *Exec, fn *ssa.Function, a []Value) Value {
		s := ex.syncOf(a[0].(PtrV))
		if s.readers <= 0 {
			ex.fatal("sync: RUnlock of unlocked RWMutex")
		}
		s.readers--
		ex.schedPoint("RUnlock")
		return nil
	}
	I["(*sync.WaitGroup).Add"] = func(ex *Exec, fn *ssa.Function, a []Value) Value {
		s := ex.syncOf(a[0].(PtrV))
		d := ex.termInt64(ex.concretize(a[1].(*Term), "WaitGroup.Add delta"))
		s.wg += d
		if s.wg < 0 {
			ex.goPanicStr("sync: negative WaitGroup counter")
		}
		return nil
	}
	I["(*sync.WaitGroup).Done"] = func(ex *Exec, fn *ssa.Function, a []Value) Value {
		s := ex.syncOf(a[0].(PtrV))
		s.wg--
		if s.wg < 0 {
			ex.goPanicStr("sync: negative WaitGroup counter")
		}
		ex.schedPoint("wg.Done")
		return nil
	}
	I["(*sync.WaitGroup).Wait"] = func(ex *Exec, fn *ssa.Function, a []Value) Value {
		s := ex.syncOf(a[0].(PtrV))
		ex.schedPoint("wg.Wait")
		ex.blockUntil(func() bool { return s.wg == 0 }, "WaitGroup.Wait")
		return nil
	}
	I["(*sync.WaitGroup).Go"] = func(ex *Exec, fn *ssa.Function, a []Value) Value {
		s := ex.syncOf(a[0].(PtrV))
		s.wg++
		f := a[1].(*FuncV)
		ex.spawnWith(f, func() {
			s.wg--
		})
		return nil
	}
	I["(*sync.Once).Do"] = func(ex *Exec, fn *ssa.Function, a []Value) Value {
		s := ex.syncOf(a[0].(PtrV))
		ex.schedPoint("Once.Do")
		ex.blockUntil(func() bool { return !s.onceRunning }, "Once.Do")
		if s.onceDone {
			return nil
		}
		s.onceRunning = true
		defer func() { s.onceRunning = false; s.onceDone = true }()
		ex.callValue(a[1], nil)
		return nil
	}
	// sync.Pool with maximal reuse: Get hands back the most recently Put item (what
	// a per-P pool does in the common case), so that use of an object after it
	// was returned to the pool shows up as aliasing
	I["(*sync.Pool).Get"] = func(ex *Exec, fn *ssa.Function, a []Value) Value {
		p := a[0].(PtrV)
		if st := ex.syncOf(p); len(st.pool) > 0 {
			v := st.pool[len(st.pool)-1]
			st.pool = st.pool[:len(st.pool)-1]
			return v
		}
		pt := fn.Signature.Recv().Type().(*types.Pointer).Elem()
		idx := structFieldIndex(pt, "New")
		nf := ex.load(PtrV{obj: p.obj, path: extendPath(p.path, pathElem{field: idx})})
		if f, ok := nf.(*FuncV); ok && f != nil {
			return ex.callValue(f, nil)
		}
		return IfaceV{}
	}
	I["(*sync.Pool).Put"] = func(ex *Exec, fn *ssa.Function, a []Value) Value {
		st := ex.syncOf(a[0].(PtrV))
		if iv, ok := a[1].(IfaceV); ok && iv.typ == nil {
			return nil
		}
		st.pool = append(st.pool, a[1])
		return nil
	}
	I["(*sync.Map).Load"] = func(ex *Exec, fn *ssa.Function, a []Value) Value {
		s := ex.syncOf(a[0].(PtrV))
		if s.m == nil {
			return TupleV{IfaceV{}, ex.tt.Bool(false)}
		}
		if e := ex.mapFind(s.m, a[1]); e != nil {
			return TupleV{e.val, ex.tt.Bool(true)}
		}
		return TupleV{IfaceV{}, ex.tt.Bool(false)}
	}
	anyT := types.NewInterfaceType(nil, nil)
	I["(*sync.Map).Store"] = func(ex *Exec, fn *ssa.Function, a []Value) Value {
		s := ex.syncOf(a[0].(PtrV))
		if s.m == nil {
			s.m = &MapV{kt: anyT, vt: anyT}
		}
		ex.mapUpdate(s.m, a[1], a[2])
		return nil
	}
	// maps.Clone's runtime-linked worker: a shallow copy of the map
	I["maps.clone"] = func(ex *Exec, fn *ssa.Function, a []Value) Value {
		iv, ok := a[0].(IfaceV)
		if !ok {
			ex.unsupported("maps.clone on %T", a[0])
			return a[0]
		}
		m, _ := iv.val.(*MapV)
		if m == nil {
			return iv
		}
		ex.mapN++
		c := &MapV{id: ex.mapN, kt: m.kt, vt: m.vt}
		for _, e := range m.ents {
			if !e.deleted {
				c.ents = append(c.ents, &mapEnt{key: e.key, val: e.val})
			}
		}
		return IfaceV{typ: iv.typ, val: c}
	}
	I["(*sync.Map).Delete"] = func(ex *Exec, fn *ssa.Function, a []Value) Value {
		s := ex.syncOf(a[0].(PtrV))
		if s.m != nil {
			ex.mapDelete(s.m, a[1])
		}
		return nil
	}
	I["(*sync.Map).LoadOrStore"] = func(ex *Exec, fn *ssa.Function, a []Value) Value {
		s := ex.syncOf(a[0].(PtrV))
		if s.m == nil {
			s.m = &MapV{kt: anyT, vt: anyT}
		}
		if e := ex.mapFind(s.m, a[1]); e != nil {
			return TupleV{e.val, ex.tt.Bool(true)}
		}
		ex.mapUpdate(s.m, a[1], a[2])
		return TupleV{a[2], ex.tt.Bool(false)}
	}
	I["(*sync.Map).LoadAndDelete"] = func(ex *Exec, fn *ssa.Function, a []Value) Value {
		s := ex.syncOf(a[0].(PtrV))
		if s.m != nil {
			if e := ex.mapFind(s.m, a[1]); e != nil {
				v := e.val
				ex.mapDelete(s.m, a[1])
				return TupleV{v, ex.tt.Bool(true)}
			}
		}
		return TupleV{IfaceV{}, ex.tt.Bool(false)}
	}
	I["(*sync.Map).Range"] = func(ex *Exec, fn *ssa.Function, a []Value) Value {
		s := ex.syncOf(a[0].(PtrV))
		if s.m == nil {
			return nil
		}
		ents := append([]*mapEnt(nil), s.m.ents...)
		for _, e := range ents {
			if e.deleted {
				continue
			}
			r := ex.callValue(a[1], []Value{e.key, e.val}).(*Term)
			if !ex.boolConst(r) {
				break
			}
		}
		return nil
	}

	// ---- sync/atomic ----
	for _, ty := range []string{"Int32", "Int64", "Uint32", "Uint64", "Uintptr", "Pointer"} {
		ty := ty
		I["sync/atomic.Load"+ty] = func(ex *Exec, fn *ssa.Function, a []Value) Value {
			p := a[0].(PtrV)
			ex.nilCheck(p)
			ex.atomicPoint("Load")
			return ex.load(p)
		}
		I["sync/atomic.Store"+ty] = func(ex *Exec, fn *ssa.Function, a []Value) Value {
			p := a[0].(PtrV)
			ex.nilCheck(p)
			ex.atomicPoint("Store")
			ex.store(p, a[1])
			return nil
		}
		I["sync/atomic.Swap"+ty] = func(ex *Exec, fn *ssa.Function, a []Value) Value {
			p := a[0].(PtrV)
			ex.nilCheck(p)
			ex.atomicPoint("Swap")
			old := ex.load(p)
			ex.store(p, a[1])
			return old
		}
		I["sync/atomic.CompareAndSwap"+ty] = func(ex *Exec, fn *ssa.Function, a []Value) Value {
			p := a[0].(PtrV)
			ex.nilCheck(p)
			ex.atomicPoint("CAS")
			old := ex.load(p)
			et := fn.Signature.Params().At(1).Type()
			eq := ex.eqValue(old, a[1], et)
			if ex.boolConst(eq) {
				ex.store(p, a[2])
				return ex.tt.Bool(true)
			}
			return ex.tt.Bool(false)
		}
		if ty != "Pointer" {
			I["sync/atomic.Add"+ty] = func(ex *Exec, fn *ssa.Function, a []Value) Value {
				p := a[0].(PtrV)
				ex.nilCheck(p)
				ex.atomicPoint("Add")
				et := fn.Signature.Params().At(1).Type()
				nv := ex.binop(tokenADD, ex.load(p), a[1], et, et, et)
				ex.store(p, nv)
				return nv
			}
			I["sync/atomic.And"+ty] = func(ex *Exec, fn *ssa.Function, a []Value) Value {
				p := a[0].(PtrV)
				et := fn.Signature.Params().At(1).Type()
				old := ex.load(p)
				ex.store(p, ex.binop(tokenAND, old, a[1], et, et, et))
				return old
			}
			I["sync/atomic.Or"+ty] = func(ex *Exec, fn *ssa.Function, a []Value) Value {
				p := a[0].(PtrV)
				et := fn.Signature.Params().At(1).Type()
				old := ex.load(p)
				ex.store(p, ex.binop(tokenOR, old, a[1], et, et, et))
				return old
			}
		}
	}
	I["(*sync/atomic.Value).Load"] = func(ex *Exec, fn *ssa.Function, a []Value) Value {
		s := ex.syncOf(a[0].(PtrV))
		ex.atomicPoint("Value.Load")
		if !s.hasVal {
			return IfaceV{}
		}
		return s.val
	}
	I["(*sync/atomic.Value).Store"] = func(ex *Exec, fn *ssa.Function, a []Value) Value {
		s := ex.syncOf(a[0].(PtrV))
		ex.atomicPoint("Value.Store")
		if a[1].(IfaceV).typ == nil {
			ex.goPanicStr("sync/atomic: store of nil value into Value")
		}
		s.val = a[1]
		s.hasVal = true
		return nil
	}
	I["(*sync/atomic.Value).Swap"] = func(ex *Exec, fn *ssa.Function, a []Value) Value {
		s := ex.syncOf(a[0].(PtrV))
		var old Value = IfaceV{}
		if s.hasVal {
			old = s.val
		}
		s.val = a[1]
		s.hasVal = true
		return old
	}
	I["(*sync/atomic.Value).CompareAndSwap"] = func(ex *Exec, fn *ssa.Function, a []Value) Value {
		s := ex.syncOf(a[0].(PtrV))
		var old Value = IfaceV{}
		if s.hasVal {
			old = s.val
		}
		if ex.boolConst(ex.eqValue(old, a[1], anyT)) {
			s.val = a[2]
			s.hasVal = true
			return ex.tt.Bool(true)
		}
		return ex.tt.Bool(false)
	}

	// ---- time ----
	I["time.Now"] = func(ex *Exec, fn *ssa.Function, a []Value) Value {
		return ex.timeValue(fn.Signature.Results().At(0).Type(), ex.now())
	}
	I["time.runtimeNano"] = func(ex *Exec, fn *ssa.Function, a []Value) Value { return ex.now() }
	I["time.Since"] = func(ex *Exec, fn *ssa.Function, a []Value) Value {
		// d = now - t.ext (monotonic readings only)
		t := a[0].(*StructV)
		return ex.intArith(tokenSUB, ex.now(), t.f[1].(*Term), tInt64, tInt64)
	}
	I["time.Until"] = func(ex *Exec, fn *ssa.Function, a []Value) Value {
		t := a[0].(*StructV)
		return ex.intArith(tokenSUB, t.f[1].(*Term), ex.now(), tInt64, tInt64)
	}
	I["time.Sleep"] = func(ex *Exec, fn *ssa.Function, a []Value) Value {
		d := a[0].(*Term)
		if !ex.branch(ex.cmpInt("<", ex.intc(0), d, true)) {
			return nil
		}
		done := false
		ex.addTimer(d, func() { done = true }, nil)
		ex.blockUntil(func() bool { return done }, "time.Sleep")
		return nil
	}
	mkTimerObj := func(ex *Exec, t types.Type, ch *ChanV) PtrV {
		// *time.Timer / *time.Ticker : struct{ C <-chan Time; ... }
		st := t.(*types.Pointer).Elem()
		o := ex.newObj(st, "timer")
		sv := o.val.(*StructV)
		f := make([]Value, len(sv.f))
		copy(f, sv.f)
		f[structFieldIndex(st, "C")] = ch
		o.val = &StructV{f: f}
		return PtrV{obj: o}
	}
	I["time.NewTimer"] = func(ex *Exec, fn *ssa.Function, a []Value) Value {
		rt := fn.Signature.Results().At(0).Type()
		timeT := rt.(*types.Pointer).Elem().Underlying().(*types.Struct).Field(0).Type().Underlying().(*types.Chan).Elem()
		ch := ex.newChan(1, timeT)
		p := mkTimerObj(ex, rt, ch)
		vt := ex.addTimer(a[0].(*Term), func() {
			ex.chanPost(ch, ex.timeValue(timeT, ex.now()))
		}, nil)
		ex.syncOf(p).val = vt
		return p
	}
	I["time.After"] = func(ex *Exec, fn *ssa.Function, a []Value) Value {
		timeT := fn.Signature.Results().At(0).Type().Underlying().(*types.Chan).Elem()
		ch := ex.newChan(1, timeT)
		ex.addTimer(a[0].(*Term), func() {
			ex.chanPost(ch, ex.timeValue(timeT, ex.now()))
		}, nil)
		return ch
	}
	I["time.NewTicker"] = func(ex *Exec, fn *ssa.Function, a []Value) Value {
		rt := fn.Signature.Results().At(0).Type()
		timeT := rt.(*types.Pointer).Elem().Underlying().(*types.Struct).Field(0).Type().Underlying().(*types.Chan).Elem()
		d := a[0].(*Term)
		ex.check(ex.cmpInt("<", ex.intc(0), d, true), "non-positive interval for NewTicker")
		ch := ex.newChan(1, timeT)
		p := mkTimerObj(ex, rt, ch)
		vt := ex.addTimer(d, func() {
			ex.chanPost(ch, ex.timeValue(timeT, ex.now()))
		}, d)
		ex.syncOf(p).val = vt
		return p
	}
	I["time.AfterFunc"] = func(ex *Exec, fn *ssa.Function, a []Value) Value {
		rt := fn.Signature.Results().At(0).Type()
		p := mkTimerObj(ex, rt, nil)
		f := a[1].(*FuncV)
		vt := ex.addTimer(a[0].(*Term), func() {
			ex.spawnQuiet(f.fn, nil, f.bindings)
		}, nil)
		ex.syncOf(p).val = vt
		return p
	}
	stopTimer := func(ex *Exec, fn *ssa.Function, a []Value) Value {
		s := ex.syncOf(a[0].(PtrV))
		vt, _ := s.val.(*vtimer)
		if vt == nil {
			ex.goPanicStr("time: Stop called on uninitialized Timer")
		}
		was := vt.active
		vt.active = false
		if fn.Signature.Results().Len() == 0 {
			return nil
		}
		return ex.tt.Bool(was)
	}
	I["(*time.Timer).Stop"] = stopTimer
	I["(*time.Ticker).Stop"] = stopTimer
	I["(*time.Timer).Reset"] = func(ex *Exec, fn *ssa.Function, a []Value) Value {
		s := ex.syncOf(a[0].(PtrV))
		vt, _ := s.val.(*vtimer)
		if vt == nil {
			ex.goPanicStr("time: Reset called on uninitialized Timer")
		}
		was := vt.active
		vt.active = true
		vt.when = ex.intArithNoWrap("+", ex.now(), a[1].(*Term))
		// Go 1.23+: Reset drains stale values of the channel
		p := a[0].(PtrV)
		st := fn.Signature.Recv().Type().(*types.Pointer).Elem()
		if ch, ok := ex.load(PtrV{obj: p.obj, path: extendPath(p.path, pathElem{field: structFieldIndex(st, "C")})}).(*ChanV); ok && ch != nil {
			ch.buf = nil
		}
		return ex.tt.Bool(was)
	}
	I["(*time.Ticker).Reset"] = func(ex *Exec, fn *ssa.Function, a []Value) Value {
		s := ex.syncOf(a[0].(PtrV))
		vt, _ := s.val.(*vtimer)
		if vt == nil {
			ex.goPanicStr("time: Reset called on uninitialized Ticker")
		}
		d := a[1].(*Term)
		ex.check(ex.cmpInt("<", ex.intc(0), d, true), "non-positive interval for Ticker.Reset")
		vt.active = true
		vt.period = d
		vt.when = ex.intArithNoWrap("+", ex.now(), d)
		return nil
	}

	// ---- randomness: exact nondeterminism ----
	randIntn := func(label string, signedT types.Type) intrinsicFn {
		return func(ex *Exec, fn *ssa.Function, a []Value) Value {
			n := a[len(a)-1].(*Term)
			rt := fn.Signature.Results().At(0).Type()
			zero := ex.mkInt(0, rt)
			if !ex.branch(ex.cmpInt("<", zero, n, true)) {
				ex.goPanicStr("invalid argument to " + label)
			}
			v := ex.newSymInt("rand:"+label, rt, false)
			ex.envDraw("rand:"+label, v)
			ex.addPC(ex.cmpInt("<=", zero, v, true))
			ex.addPC(ex.cmpInt("<", v, n, true))
			return v
		}
	}
	for _, p := range []string{"math/rand.", "(*math/rand.Rand).", "math/rand/v2.", "(*math/rand/v2.Rand)."} {
		I[p+"Intn"] = randIntn("Intn", tInt)
		I[p+"Int63n"] = randIntn("Int63n", tInt64)
		I[p+"Int31n"] = randIntn("Int31n", types.Typ[types.Int32])
		I[p+"IntN"] = randIntn("IntN", tInt)
		I[p+"Int64N"] = randIntn("Int64N", tInt64)
		I[p+"Int32N"] = randIntn("Int32N", types.Typ[types.Int32])
		for _, nm := range []string{"Uint32", "Uint64", "Int63", "Int31", "Int", "Int64", "Int32"} {
			nm := nm
			I[p+nm] = func(ex *Exec, fn *ssa.Function, a []Value) Value {
				rt := fn.Signature.Results().At(0).Type()
				v := ex.newSymInt("rand:"+nm, rt, false)
				ex.envDraw("rand:"+nm, v)
				if isSigned(rt) {
					ex.addPC(ex.cmpInt("<=", ex.mkInt(0, rt), v, true))
				}
				if nm == "Int31" {
					ex.addPC(ex.cmpInt("<=", v, ex.mkInt(1<<31-1, rt), true))
				}
				return v
			}
		}
		I[p+"Read"] = func(ex *Exec, fn *ssa.Function, a []Value) Value {
			s := a[len(a)-1].(SliceV)
			n := int(ex.termInt64(ex.concretize(s.len, "rand.Read len")))
			bs := ex.newSymBytes("rand:Read", n, false)
			for i, b := range bs {
				ex.envDraw("rand:Read", b)
				ex.store(ex.sliceElemPtr(s, ex.intc(int64(i))), b)
			}
			return TupleV{ex.intc(int64(n)), IfaceV{}}
		}
	}
	I["crypto/rand.Read"] = func(ex *Exec, fn *ssa.Function, a []Value) Value {
		s := a[0].(SliceV)
		n := int(ex.termInt64(ex.concretize(s.len, "rand.Read len")))
		var bs []*Term
		if len(ex.randQueue) >= n && n > 0 {
			// values the harness fixed for this read (verifRandQueue)
			bs = ex.randQueue[:n]
			ex.randQueue = ex.randQueue[n:]
		} else {
			bs = ex.newSymBytes("crand", n, true)
		}
		for i, b := range bs {
			ex.store(ex.sliceElemPtr(s, ex.intc(int64(i))), b)
		}
		return TupleV{ex.intc(int64(n)), IfaceV{}}
	}

	// ---- errors / fmt ----
	I["errors.Is"] = func(ex *Exec, fn *ssa.Function, a []Value) Value { return ex.tt.Bool(ex.errorsIs(a[0], a[1], 0)) }
	I["errors.As"] = func(ex *Exec, fn *ssa.Function, a []Value) Value { return ex.tt.Bool(ex.errorsAs(a[0], a[1])) }
	I["fmt.Sprintf"] = func(ex *Exec, fn *ssa.Function, a []Value) Value {
		s, _ := ex.sprintf(a[0].(*StrV), a[1].(SliceV))
		return s
	}
	I["fmt.Sprint"] = func(ex *Exec, fn *ssa.Function, a []Value) Value {
		return ex.sprint(a[0].(SliceV))
	}
	I["fmt.Errorf"] = func(ex *Exec, fn *ssa.Function, a []Value) Value {
		s, wrapped := ex.sprintf(a[0].(*StrV), a[1].(SliceV))
		fp := e.prog.ImportedPackage("fmt")
		if wrapped != nil && fp != nil {
			wt := fp.Type("wrapError").Type()
			o := ex.newObj(wt, "wrapError")
			o.val = &StructV{f: []Value{s, wrapped}}
			return IfaceV{typ: types.NewPointer(wt), val: PtrV{obj: o}}
		}
		ep := e.prog.ImportedPackage("errors")
		et := ep.Type("errorString").Type()
		o := ex.newObj(et, "errorString")
		o.val = &StructV{f: []Value{s}}
		return IfaceV{typ: types.NewPointer(et), val: PtrV{obj: o}}
	}
	I["sort.Slice"] = func(ex *Exec, fn *ssa.Function, a []Value) Value {
		ex.sortSlice(a[0].(IfaceV).val.(SliceV), a[1], false)
		return nil
	}
	I["sort.SliceStable"] = I["sort.Slice"]
	I["strconv.Itoa"] = func(ex *Exec, fn *ssa.Function, a []Value) Value {
		t := a[0].(*Term)
		if t.isConst {
			return concStr(strconv.FormatInt(ex.termInt64(t), 10))
		}
		return ex.callBody(fn, a)
	}

	// hex of symbolic bytes stays symbolic and is inverted algebraically
	I["encoding/hex.EncodeToString"] = func(ex *Exec, fn *ssa.Function, a []Value) Value {
		bs := ex.sliceBytes(a[0].(SliceV))
		all := true
		for _, b := range bs {
			if !b.isConst {
				all = false
			}
		}
		if all {
			return ex.callFunctionNoIntrinsic(fn, a, nil)
		}
		return &StrV{hexSrc: bs}
	}
	I["encoding/hex.DecodeString"] = func(ex *Exec, fn *ssa.Function, a []Value) Value {
		s := a[0].(*StrV)
		if s.hexSrc != nil {
			return TupleV{ex.bytesSlice(append([]*Term(nil), s.hexSrc...)), IfaceV{}}
		}
		return ex.callFunctionNoIntrinsic(fn, a, nil)
	}

	// unique.Make: canonical handle per distinct value
	I["unique.Make"] = func(ex *Exec, fn *ssa.Function, a []Value) Value {
		vt := fn.Signature.Params().At(0).Type()
		for _, u := range ex.uniqueTab {
			if types.Identical(u.typ, vt) {
				if c := ex.eqValue(u.val, a[0], vt); c.isConst && c.u == 1 {
					return &StructV{f: []Value{u.ptr}}
				}
			}
		}
		o := ex.newObj(vt, "unique")
		o.val = a[0]
		p := PtrV{obj: o}
		ex.uniqueTab = append(ex.uniqueTab, uniqueEnt{typ: vt, val: a[0], ptr: p})
		return &StructV{f: []Value{p}}
	}
	I["math/rand.NewSource"] = func(ex *Exec, fn *ssa.Function, a []Value) Value {
		rp := e.prog.ImportedPackage("math/rand")
		st := rp.Type("rngSource").Type()
		o := ex.newObj(st, "rngSource(unseeded model)")
		return IfaceV{typ: types.NewPointer(st), val: PtrV{obj: o}}
	}

	// ---- crypto as uninterpreted functions ----
	I["golang.org/x/crypto/blake2b.Sum256"] = func(ex *Exec, fn *ssa.Function, a []Value) Value {
		in := ex.sliceBytes(a[0].(SliceV))
		out := ex.ufBytes("blake2b256", in, 32)
		e := make([]Value, 32)
		for i := range e {
			e[i] = out[i]
		}
		return &ArrayV{e: e}
	}
	I["crypto/sha256.Sum256"] = func(ex *Exec, fn *ssa.Function, a []Value) Value {
		in := ex.sliceBytes(a[0].(SliceV))
		out := ex.ufBytes("sha256", in, 32)
		e := make([]Value, 32)
		for i := range e {
			e[i] = out[i]
		}
		return &ArrayV{e: e}
	}
}

func (ex *Exec) callBody(fn *ssa.Function, a []Value) Value {
	// run the real body of a function that has an intrinsic entry
	key := fnKey(fn)
	saved := ex.eng.intrinsics[key]
	_ = saved
	return ex.callFunctionNoIntrinsic(fn, a, nil)
}

func (ex *Exec) atomicPoint(what string) {
	if ex.schedAtomics {
		ex.schedPoint("atomic." + what)
	}
}

func (ex *Exec) fatal(msg string) {
	res, m := ex.modelNow()
	if res != Unsat {
		ex.recordViolation("panic", "fatal error: "+msg, ex.stackString(), m)
	}
	ex.end("stop", "fatal: "+msg)
}

func (ex *Exec) envDraw(label string, v *Term) {
	ex.envDraws = append(ex.envDraws, v)
}

// timeValue builds a time.Time with a monotonic reading of ns.
func (ex *Exec) timeValue(t types.Type, ns *Term) Value {
	// struct{ wall uint64; ext int64; loc *Location }
	var wall *Term
	if ex.intMode {
		wall = ex.tt.Int(new(big.Int).Lsh(big.NewInt(1), 63))
	} else {
		wall = ex.tt.BV(1<<63, 64)
	}
	return &StructV{f: []Value{wall, ns, PtrV{}}}
}

// ---------- errors.Is / As ----------

func (ex *Exec) methodOf(iv IfaceV, name string) *ssa.Function {
	ms := ex.eng.prog.MethodSets.MethodSet(iv.typ)
	for i := 0; i < ms.Len(); i++ {
		if ms.At(i).Obj().Name() == name {
			return ex.eng.prog.MethodValue(ms.At(i))
		}
	}
	return nil
}

func (ex *Exec) errorsIs(errV, targetV Value, depth int) bool {
	err := errV.(IfaceV)
	target := targetV.(IfaceV)
	if err.typ == nil || target.typ == nil {
		return err.typ == nil && target.typ == nil
	}
	if depth > 20 {
		return false
	}
	if types.Comparable(target.typ) && types.Identical(err.typ, target.typ) {
		if ex.boolConst(ex.eqValue(err.val, target.val, err.typ)) {
			return true
		}
	}
	if m := ex.methodOf(err, "Is"); m != nil && m.Signature.Params().Len() == 1 && m.Signature.Results().Len() == 1 {
		r := ex.callFunction(m, []Value{err.val, target}, nil).(*Term)
		if ex.boolConst(r) {
			return true
		}
	}
	if m := ex.methodOf(err, "Unwrap"); m != nil && m.Signature.Results().Len() == 1 {
		r := ex.callFunction(m, []Value{err.val}, nil)
		switch rv := r.(type) {
		case IfaceV:
			if rv.typ == nil {
				return false
			}
			return ex.errorsIs(rv, target, depth+1)
		case SliceV:
			n := int(ex.termInt64(ex.concretize(rv.len, "Unwrap() []error")))
			for i := 0; i < n; i++ {
				if ex.errorsIs(ex.load(ex.sliceElemPtr(rv, ex.intc(int64(i)))), target, depth+1) {
					return true
				}
			}
		}
	}
	return false
}

func (ex *Exec) errorsAs(errV, targetV Value) bool {
	err := errV.(IfaceV)
	tgt := targetV.(IfaceV)
	if tgt.typ == nil {
		ex.goPanicStr("errors: target cannot be nil")
	}
	pt, ok := tgt.typ.(*types.Pointer)
	if !ok {
		ex.goPanicStr("errors: target must be a non-nil pointer")
	}
	want := pt.Elem()
	p := tgt.val.(PtrV)
	for depth := 0; err.typ != nil && depth < 20; depth++ {
		if types.AssignableTo(err.typ, want) {
			if types.IsInterface(want) {
				ex.store(p, err)
			} else {
				ex.store(p, err.val)
			}
			return true
		}
		if m := ex.methodOf(err, "As"); m != nil && m.Signature.Params().Len() == 1 {
			r := ex.callFunction(m, []Value{err.val, tgt}, nil).(*Term)
			if ex.boolConst(r) {
				return true
			}
		}
		m := ex.methodOf(err, "Unwrap")
		if m == nil || m.Signature.Results().Len() != 1 {
			return false
		}
		r := ex.callFunction(m, []Value{err.val}, nil)
		rv, ok := r.(IfaceV)
		if !ok {
			return false
		}
		err = rv
	}
	return false
}

// ---------- fmt ----------

// fmtArg renders one operand; ok=false when it is not a concrete simple value.
func (ex *Exec) fmtArg(v Value, verb byte) (string, bool) {
	iv, isI := v.(IfaceV)
	if !isI {
		return "", false
	}
	if iv.typ == nil {
		return "<nil>", true
	}
	switch x := iv.val.(type) {
	case *StrV:
		if x.conc {
			if verb == 'q' {
				return strconv.Quote(x.s), true
			}
			return x.s, true
		}
	case *Term:
		if x.isConst {
			switch x.sort.K {
			case SBool:
				return strconv.FormatBool(x.u == 1), true
			case SBV, SInt:
				var n int64
				if x.sort.K == SInt {
					n = x.bi.Int64()
				} else if isSigned(iv.typ) {
					n = sext(x.u, x.sort.W)
				} else {
					if verb == 'x' {
						return strconv.FormatUint(x.u, 16), true
					}
					return strconv.FormatUint(x.u, 10), true
				}
				if verb == 'x' {
					return strconv.FormatInt(n, 16), true
				}
				return strconv.FormatInt(n, 10), true
			}
		}
	}
	// error / Stringer
	if m := ex.methodOf(iv, "Error"); m != nil && m.Signature.Params().Len() == 0 {
		r := ex.callFunction(m, []Value{iv.val}, nil).(*StrV)
		if r.conc {
			return r.s, true
		}
		return "", false
	}
	if m := ex.methodOf(iv, "String"); m != nil && m.Signature.Params().Len() == 0 && m.Signature.Results().Len() == 1 {
		if r, ok := ex.callFunction(m, []Value{iv.val}, nil).(*StrV); ok && r.conc {
			return r.s, true
		}
	}
	return "", false
}

func (ex *Exec) sprintf(format *StrV, args SliceV) (*StrV, Value) {
	var wrapped Value
	n := int(ex.termInt64(ex.concretize(args.len, "fmt args")))
	vals := make([]Value, n)
	for i := range vals {
		vals[i] = ex.load(ex.sliceElemPtr(args, ex.intc(int64(i))))
	}
	if !format.conc {
		return concStr("<fmt:symbolic-format>"), nil
	}
	f := format.s
	var sb strings.Builder
	ai := 0
	opaque := false
	var pre *StrV // symbolic prefix accumulated so far
	for i := 0; i < len(f); i++ {
		if f[i] != '%' {
			sb.WriteByte(f[i])
			continue
		}
		i++
		if i >= len(f) {
			break
		}
		// flags/width
		for i < len(f) && strings.IndexByte("+-# 0123456789.", f[i]) >= 0 {
			i++
		}
		if i >= len(f) {
			break
		}
		verb := f[i]
		if verb == '%' {
			sb.WriteByte('%')
			continue
		}
		if ai >= len(vals) {
			sb.WriteString("%!" + string(verb) + "(MISSING)")
			continue
		}
		v := vals[ai]
		ai++
		if verb == 'w' {
			if iv, ok := v.(IfaceV); ok && iv.typ != nil {
				wrapped = iv
			}
			verb = 'v'
		}
		s, ok := ex.fmtArg(v, verb)
		if !ok {
			// a symbolic string under %s / %v is spliced in as it is
			if iv, isI := v.(IfaceV); isI && (verb == 's' || verb == 'v') {
				if sv, isS := iv.val.(*StrV); isS && !sv.opaque {
					if pre == nil {
						pre = concStr("")
					}
					pre = ex.strConcat(ex.strConcat(pre, concStr(sb.String())), sv)
					sb.Reset()
					continue
				}
			}
			opaque = true
			sb.WriteString("<?>")
		} else {
			sb.WriteString(s)
		}
	}
	if opaque {
		ex.noteStub("fmt: operand rendered opaquely")
	}
	if pre != nil {
		return ex.strConcat(pre, concStr(sb.String())), wrapped
	}
	return concStr(sb.String()), wrapped
}

func (ex *Exec) sprint(args SliceV) *StrV {
	n := int(ex.termInt64(ex.concretize(args.len, "fmt args")))
	var sb strings.Builder
	for i := 0; i < n; i++ {
		v := ex.load(ex.sliceElemPtr(args, ex.intc(int64(i))))
		s, ok := ex.fmtArg(v, 'v')
		if !ok {
			s = "<?>"
		}
		sb.WriteString(s)
	}
	return concStr(sb.String())
}

// sortSlice: insertion sort driven by the real less closure (symbolic
// comparisons fork).
func (ex *Exec) sortSlice(s SliceV, less Value, _ bool) {
	n := int(ex.termInt64(ex.concretize(s.len, "sort length")))
	for i := 1; i < n; i++ {
		for j := i; j > 0; j-- {
			r := ex.callValue(less, []Value{ex.intc(int64(j)), ex.intc(int64(j - 1))}).(*Term)
			if !ex.boolConst(r) {
				break
			}
			pa, pb := ex.sliceElemPtr(s, ex.intc(int64(j))), ex.sliceElemPtr(s, ex.intc(int64(j-1)))
			va, vb := ex.load(pa), ex.load(pb)
			ex.store(pa, vb)
			ex.store(pb, va)
		}
	}
}
