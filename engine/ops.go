package main

import (
	"fmt"
	"go/token"
	"go/types"
	"math/big"

	"golang.org/x/tools/go/ssa"
)

// ---------- integer arithmetic (BV or Int mode) ----------

func pow2(k int) *big.Int { return new(big.Int).Lsh(big.NewInt(1), uint(k)) }

type memoKey struct {
	pcLen  int
	pcHash uint64
	id     int
}

// entails asks whether the path condition implies c (cached per pc prefix).
func (ex *Exec) entails(c *Term) bool {
	if c.isConst {
		return c.u == 1
	}
	if ex.pcSet[c] {
		return true
	}
	k := memoKey{len(ex.pc), ex.pcHash, c.id}
	if r, ok := ex.entMemo[k]; ok {
		return r
	}
	if ex.evalModel(c) == 0 {
		// the cached model of the path condition falsifies c
		return false
	}
	ex.profile("entails")
	rr, _ := ex.solve([]*Term{ex.tt.Not(c)}, nil, false)
	r := rr == Unsat
	if ex.entMemo == nil {
		ex.entMemo = map[memoKey]bool{}
	}
	ex.entMemo[k] = r
	return r
}

// tryConst replaces a (nonlinear) term by a constant when the path condition
// determines its value: one model query plus one entailment query.
func (ex *Exec) tryConst(t *Term) *Term {
	if t.isConst {
		return t
	}
	if r, ok := ex.constMemo[t]; ok {
		return r
	}
	ex.profile("tryConst")
	// probe inside a solver scope so that the probed term leaves no trace
	ex.sol.Push()
	unk0 := ex.sol.Stats.Unknown
	res, k := ex.sol.ValueOf(t)
	out := t
	if res == Sat && k != nil {
		ex.sol.Assert(ex.tt.Not(ex.tt.Eq(t, k)))
		if ex.sol.Check() == Unsat {
			out = k
		}
	}
	// an undecided probe only means "no constant found": it does not weaken any verdict
	ex.sol.Stats.Unknown = unk0
	ex.sol.PopScope()
	if ex.constMemo == nil {
		ex.constMemo = map[*Term]*Term{}
	}
	ex.constMemo[t] = out
	if out != t {
		ex.addPC(ex.tt.Eq(t, out))
	}
	return out
}

// bounds computes a structural interval of an Int term (path-independent);
// nil means unbounded on that side.
func (ex *Exec) bounds(t *Term) (lo, hi *big.Int) {
	if b, ok := ex.tt.bnd[t]; ok {
		return b[0], b[1]
	}
	lo, hi = ex.bounds0(t)
	if ex.tt.bnd == nil {
		ex.tt.bnd = map[*Term][2]*big.Int{}
	}
	ex.tt.bnd[t] = [2]*big.Int{lo, hi}
	return
}

func minB(a, b *big.Int) *big.Int {
	if a == nil || b == nil {
		return nil
	}
	if a.Cmp(b) < 0 {
		return a
	}
	return b
}

func maxB(a, b *big.Int) *big.Int {
	if a == nil || b == nil {
		return nil
	}
	if a.Cmp(b) > 0 {
		return a
	}
	return b
}

func (ex *Exec) bounds0(t *Term) (lo, hi *big.Int) {
	if t.sort.K != SInt {
		return nil, nil
	}
	if t.isConst {
		return t.bi, t.bi
	}
	switch t.op {
	case "var":
		if r, ok := ex.tt.varRange[t]; ok {
			return r[0], r[1]
		}
	case "+":
		al, ah := ex.bounds(t.args[0])
		bl, bh := ex.bounds(t.args[1])
		if al != nil && bl != nil {
			lo = new(big.Int).Add(al, bl)
		}
		if ah != nil && bh != nil {
			hi = new(big.Int).Add(ah, bh)
		}
		return
	case "-":
		al, ah := ex.bounds(t.args[0])
		bl, bh := ex.bounds(t.args[1])
		if al != nil && bh != nil {
			lo = new(big.Int).Sub(al, bh)
		}
		if ah != nil && bl != nil {
			hi = new(big.Int).Sub(ah, bl)
		}
		return
	case "*":
		al, ah := ex.bounds(t.args[0])
		bl, bh := ex.bounds(t.args[1])
		if al == nil || ah == nil || bl == nil || bh == nil {
			return nil, nil
		}
		ps := []*big.Int{new(big.Int).Mul(al, bl), new(big.Int).Mul(al, bh), new(big.Int).Mul(ah, bl), new(big.Int).Mul(ah, bh)}
		lo, hi = ps[0], ps[0]
		for _, p := range ps[1:] {
			lo, hi = minB(lo, p), maxB(hi, p)
		}
		return
	case "ite":
		al, ah := ex.bounds(t.args[1])
		bl, bh := ex.bounds(t.args[2])
		return minB(al, bl), maxB(ah, bh)
	case "mod":
		_, bh := ex.bounds(t.args[1])
		bl, _ := ex.bounds(t.args[1])
		if bl != nil && bl.Sign() > 0 && bh != nil {
			return big.NewInt(0), new(big.Int).Sub(bh, big.NewInt(1))
		}
	case "div":
		al, ah := ex.bounds(t.args[0])
		bl, _ := ex.bounds(t.args[1])
		if bl != nil && bl.Sign() > 0 && al != nil && ah != nil {
			// |a div b| <= |a| for b >= 1
			m := maxB(new(big.Int).Abs(al), new(big.Int).Abs(ah))
			if al.Sign() >= 0 {
				return big.NewInt(0), ah
			}
			return new(big.Int).Neg(m), m
		}
	case "bv2nat":
		return big.NewInt(0), new(big.Int).Sub(pow2(t.args[0].sort.W), big.NewInt(1))
	case "select":
		if t.args[0].sort.ElInt {
			return big.NewInt(0), big.NewInt(255)
		}
	}
	return nil, nil
}

// fitType brings a mathematical-integer result into the range of Go type t,
// keeping mod-2^k semantics: if the path condition proves the result in range
// it is used as is, otherwise it is wrapped.
func (ex *Exec) fitType(r *Term, t types.Type) *Term {
	lo, hi := typeRange(t)
	w := basicWidth(t.Underlying().(*types.Basic))
	if r.isConst {
		if r.bi.Cmp(lo) >= 0 && r.bi.Cmp(hi) <= 0 {
			return r
		}
		m := new(big.Int).Mod(r.bi, pow2(w)) // Euclidean, non-negative
		if isSigned(t) && m.Cmp(hi) > 0 {
			m.Sub(m, pow2(w))
		}
		return ex.tt.Int(m)
	}
	if bl, bh := ex.bounds(r); bl != nil && bh != nil && bl.Cmp(lo) >= 0 && bh.Cmp(hi) <= 0 {
		return r
	}
	if w == 64 && ex.inHarnessFrame() {
		// arithmetic written in the harness itself (sums of lengths, counters)
		// is taken as mathematical; harness values stay far below 2^63
		return r
	}
	inr := ex.tt.And(ex.tt.IntCmp("<=", ex.tt.Int(lo), r), ex.tt.IntCmp("<=", r, ex.tt.Int(hi)))
	if ex.entails(inr) {
		return r
	}
	ex.wraps++
	if isSigned(t) {
		half := pow2(w - 1)
		return ex.tt.IntBin("-", ex.tt.IntBin("mod", ex.tt.IntBin("+", r, ex.tt.Int(half)), ex.tt.Int(pow2(w))), ex.tt.Int(half))
	}
	return ex.tt.IntBin("mod", r, ex.tt.Int(pow2(w)))
}

func (ex *Exec) int2bv(x *Term, w int) *Term {
	if x.isConst {
		m := new(big.Int).Mod(x.bi, pow2(w))
		return ex.tt.BV(m.Uint64(), w)
	}
	return ex.tt.app(fmt.Sprintf("(_ int2bv %d)", w), BVSort(w), x)
}

func (ex *Exec) bv2int(x *Term, signed bool) *Term {
	w := x.sort.W
	if x.isConst {
		if signed {
			return ex.tt.Int64(sext(x.u, w))
		}
		return ex.tt.Int(new(big.Int).SetUint64(x.u))
	}
	n := ex.tt.app("bv2nat", IntSort, x)
	if !signed {
		return n
	}
	return ex.tt.Ite(ex.tt.IntCmp("<", n, ex.tt.Int(pow2(w-1))), n, ex.tt.IntBin("-", n, ex.tt.Int(pow2(w))))
}

func (ex *Exec) cmpInt(op string, a, b *Term, signed bool) *Term {
	if ex.intMode {
		return ex.tt.IntCmp(op, a, b)
	}
	switch op {
	case "<":
		if signed {
			return ex.tt.BVCmp("bvslt", a, b)
		}
		return ex.tt.BVCmp("bvult", a, b)
	case "<=":
		if signed {
			return ex.tt.BVCmp("bvsle", a, b)
		}
		return ex.tt.BVCmp("bvule", a, b)
	case ">":
		return ex.cmpInt("<", b, a, signed)
	case ">=":
		return ex.cmpInt("<=", b, a, signed)
	}
	panic("cmpInt " + op)
}

func (ex *Exec) addInt(a, b *Term) *Term { // type int, no wrap expected (lengths/offsets)
	if ex.intMode {
		return ex.tt.IntBin("+", a, b)
	}
	return ex.tt.BVBin("bvadd", a, b)
}

func (ex *Exec) subInt(a, b *Term) *Term {
	if ex.intMode {
		return ex.tt.IntBin("-", a, b)
	}
	return ex.tt.BVBin("bvsub", a, b)
}

func isPow2(b *big.Int) (int, bool) {
	if b.Sign() <= 0 {
		return 0, false
	}
	n := b.BitLen() - 1
	if new(big.Int).Lsh(big.NewInt(1), uint(n)).Cmp(b) == 0 {
		return n, true
	}
	return 0, false
}

func (ex *Exec) intArith(op token.Token, a, b *Term, t types.Type, yt types.Type) *Term {
	tt := ex.tt
	signed := isSigned(t)
	w := basicWidth(t.Underlying().(*types.Basic))
	if !ex.intMode {
		switch op {
		case token.ADD:
			return tt.BVBin("bvadd", a, b)
		case token.SUB:
			return tt.BVBin("bvsub", a, b)
		case token.MUL:
			return tt.BVBin("bvmul", a, b)
		case token.QUO:
			ex.check(tt.Not(tt.Eq(b, tt.BV(0, w))), "integer divide by zero")
			if signed {
				return tt.BVBin("bvsdiv", a, b)
			}
			return tt.BVBin("bvudiv", a, b)
		case token.REM:
			ex.check(tt.Not(tt.Eq(b, tt.BV(0, w))), "integer divide by zero")
			if signed {
				return tt.BVBin("bvsrem", a, b)
			}
			return tt.BVBin("bvurem", a, b)
		case token.AND:
			return tt.BVBin("bvand", a, b)
		case token.OR:
			return tt.BVBin("bvor", a, b)
		case token.XOR:
			return tt.BVBin("bvxor", a, b)
		case token.AND_NOT:
			return tt.BVBin("bvand", a, tt.BVNot(b))
		case token.SHL, token.SHR:
			// shift count: y has its own type
			yw := b.sort.W
			if isSigned(yt) {
				ex.check(tt.Not(tt.BVCmp("bvslt", b, tt.BV(0, yw))), "negative shift amount")
			}
			var cnt *Term
			if yw == w {
				cnt = b
			} else if yw < w {
				cnt = tt.ZExt(b, w)
			} else {
				// saturate
				big := tt.BVCmp("bvule", tt.BV(uint64(w), yw), b)
				cnt = tt.Ite(big, tt.BV(uint64(w), w), tt.Extract(b, w-1, 0))
			}
			if op == token.SHL {
				return tt.BVBin("bvshl", a, cnt)
			}
			if signed {
				return tt.BVBin("bvashr", a, cnt)
			}
			return tt.BVBin("bvlshr", a, cnt)
		}
		panic("intArith: " + op.String())
	}
	// Int mode
	switch op {
	case token.ADD:
		return ex.fitType(tt.IntBin("+", a, b), t)
	case token.SUB:
		return ex.fitType(tt.IntBin("-", a, b), t)
	case token.MUL:
		r := tt.IntBin("*", a, b)
		if !a.isConst && !b.isConst {
			r = ex.tryConst(r)
		}
		return ex.fitType(r, t)
	case token.QUO, token.REM:
		zero := tt.Int64(0)
		ex.check(tt.Not(tt.Eq(b, zero)), "integer divide by zero")
		var q *Term
		aNonNeg := !signed || ex.entails(tt.IntCmp("<=", zero, a))
		bPos := !signed || ex.entails(tt.IntCmp("<", zero, b))
		if aNonNeg && bPos && !b.isConst {
			// symbolic divisor: quotient and remainder as fresh integers tied to
			// the operands by a = b*q + r, 0 <= r < b (solvers cope with the
			// product far better than with div/mod by a variable)
			q0 := tt.IntBin("div", a, b)
			if k := ex.tryConst(q0); k.isConst {
				if op == token.QUO {
					return ex.fitType(k, t)
				}
				return tt.IntBin("-", a, tt.IntBin("*", k, b))
			}
			qv := tt.Var(fmt.Sprintf("quo!%d!%d", a.id, b.id), IntSort)
			rv := tt.Var(fmt.Sprintf("rem!%d!%d", a.id, b.id), IntSort)
			ex.pathVars = append(ex.pathVars, qv, rv)
			if _, ah := ex.bounds(a); ah != nil {
				ex.tt.setVarRange(qv, big.NewInt(0), ah)
				ex.tt.setVarRange(rv, big.NewInt(0), ah)
			}
			ex.addPC(tt.Eq(a, tt.IntBin("+", tt.IntBin("*", b, qv), rv)))
			ex.addPC(tt.And(tt.IntCmp("<=", zero, rv), tt.IntCmp("<", rv, b)))
			ex.addPC(tt.IntCmp("<=", zero, qv))
			ex.addPC(tt.IntCmp("<=", qv, a))
			if op == token.QUO {
				return ex.fitType(qv, t)
			}
			return rv
		} else if aNonNeg && bPos {
			q = tt.IntBin("div", a, b)
		} else {
			absA := tt.Ite(tt.IntCmp("<=", zero, a), a, tt.IntNeg(a))
			absB := tt.Ite(tt.IntCmp("<", zero, b), b, tt.IntNeg(b))
			qa := tt.IntBin("div", absA, absB)
			sameSign := tt.Eq(tt.IntCmp("<=", zero, a), tt.IntCmp("<", zero, b))
			q = tt.Ite(sameSign, qa, tt.IntNeg(qa))
		}
		if !b.isConst {
			// nonlinear: if the path condition pins the quotient to one value use it
			q = ex.tryConst(q)
			if !q.isConst && aNonNeg && bPos {
				// defining lemma of the quotient, stated with a product: b*q <= a < b*q + b
				bq := tt.IntBin("*", b, q)
				ex.addPC(tt.And(tt.IntCmp("<=", bq, a), tt.IntCmp("<", a, tt.IntBin("+", bq, b))))
			}
		}
		if op == token.QUO {
			return ex.fitType(q, t)
		}
		return tt.IntBin("-", a, tt.IntBin("*", q, b))
	case token.SHL:
		if b.isConst {
			k := int(b.bi.Int64())
			if k >= w {
				return tt.Int64(0)
			}
			return ex.fitType(tt.IntBin("*", a, tt.Int(pow2(k))), t)
		}
	case token.SHR:
		if b.isConst {
			k := int(b.bi.Int64())
			if k >= w {
				if signed {
					return tt.Ite(tt.IntCmp("<", a, tt.Int64(0)), tt.Int64(-1), tt.Int64(0))
				}
				return tt.Int64(0)
			}
			return tt.IntBin("div", a, tt.Int(pow2(k))) // floor == arithmetic shift
		}
	case token.AND:
		if a.isConst && !b.isConst {
			a, b = b, a
		}
		if b.isConst {
			if k, ok := isPow2(new(big.Int).Add(b.bi, big.NewInt(1))); ok {
				return tt.IntBin("mod", a, tt.Int(pow2(k)))
			}
		}
	}
	// a | b and a ^ b over disjoint bit ranges (byte assembly: x<<k | y with
	// y < 2^k) are plain sums
	if op == token.OR || op == token.XOR {
		if s := ex.disjointSum(a, b); s != nil {
			return s
		}
		if s := ex.disjointSum(b, a); s != nil {
			return s
		}
	}
	// fallback through bit-vectors
	x := ex.int2bv(a, w)
	var r *Term
	switch op {
	case token.AND:
		r = tt.BVBin("bvand", x, ex.int2bv(b, w))
	case token.OR:
		r = tt.BVBin("bvor", x, ex.int2bv(b, w))
	case token.XOR:
		r = tt.BVBin("bvxor", x, ex.int2bv(b, w))
	case token.AND_NOT:
		r = tt.BVBin("bvand", x, tt.BVNot(ex.int2bv(b, w)))
	case token.SHL, token.SHR:
		// symbolic shift count
		big := tt.IntCmp("<=", tt.Int64(int64(w)), b)
		cnt := tt.Ite(big, tt.BV(uint64(w), w), ex.int2bv(b, w))
		if isSigned(yt) {
			ex.check(tt.IntCmp("<=", tt.Int64(0), b), "negative shift amount")
		}
		if op == token.SHL {
			r = tt.BVBin("bvshl", x, cnt)
		} else if signed {
			r = tt.BVBin("bvashr", x, cnt)
		} else {
			r = tt.BVBin("bvlshr", x, cnt)
		}
	default:
		panic("intArith(int mode): " + op.String())
	}
	return ex.bv2int(r, signed)
}

// ---------- BinOp ----------

func (ex *Exec) binop(op token.Token, x, y Value, xt, yt, rt types.Type) Value {
	tt := ex.tt
	switch op {
	case token.EQL:
		return ex.eqValue(x, y, xt)
	case token.NEQ:
		return tt.Not(ex.eqValue(x, y, xt))
	}
	switch xv := x.(type) {
	case *Term:
		yv := y.(*Term)
		switch {
		case isIntType(xt):
			switch op {
			case token.LSS:
				return ex.cmpInt("<", xv, yv, isSigned(xt))
			case token.LEQ:
				return ex.cmpInt("<=", xv, yv, isSigned(xt))
			case token.GTR:
				return ex.cmpInt(">", xv, yv, isSigned(xt))
			case token.GEQ:
				return ex.cmpInt(">=", xv, yv, isSigned(xt))
			}
			return ex.intArith(op, xv, yv, xt, yt)
		case isFloatType(xt):
			if ex.fpAbstract && !(xv.isConst && yv.isConst) {
				switch op {
				case token.ADD, token.SUB, token.MUL, token.QUO:
					// fp=abstract: the result of floating-point arithmetic on symbolic
					// operands is over-approximated by an arbitrary value
					ex.stubsHit["floating-point arithmetic on symbolic operands: arbitrary result (fp=abstract)"] = true
					return ex.tt.Var(ex.newVarName("fpabs"), xv.sort)
				}
			}
			switch op {
			case token.ADD:
				return tt.FBin("fp.add", xv, yv)
			case token.SUB:
				return tt.FBin("fp.sub", xv, yv)
			case token.MUL:
				return tt.FBin("fp.mul", xv, yv)
			case token.QUO:
				return tt.FBin("fp.div", xv, yv)
			case token.LSS:
				return tt.FCmp("fp.lt", xv, yv)
			case token.LEQ:
				return tt.FCmp("fp.leq", xv, yv)
			case token.GTR:
				return tt.FCmp("fp.gt", xv, yv)
			case token.GEQ:
				return tt.FCmp("fp.geq", xv, yv)
			}
		default: // bool
			switch op {
			case token.AND, token.LAND:
				return tt.And(xv, yv)
			case token.OR, token.LOR:
				return tt.Or(xv, yv)
			case token.XOR:
				return tt.Not(tt.Eq(xv, yv))
			}
		}
	case *StrV:
		yv := y.(*StrV)
		switch op {
		case token.ADD:
			return ex.strConcat(xv, yv)
		case token.LSS:
			return ex.strLess(xv, yv, false)
		case token.LEQ:
			return ex.strLess(xv, yv, true)
		case token.GTR:
			return ex.strLess(yv, xv, false)
		case token.GEQ:
			return ex.strLess(yv, xv, true)
		}
	}
	ex.unsupported("binop %s on %T (%s)", op, x, xt)
	return nil
}

// eqValue compares two values of static type t.
func (ex *Exec) eqValue(x, y Value, t types.Type) *Term {
	tt := ex.tt
	switch xv := x.(type) {
	case *Term:
		return tt.Eq(xv, y.(*Term))
	case *StrV:
		return ex.strEq(xv, y.(*StrV))
	case PtrV:
		yv, ok := y.(PtrV)
		if !ok {
			return tt.Bool(false)
		}
		if xv.obj != yv.obj || len(xv.path) != len(yv.path) {
			return tt.Bool(false)
		}
		c := tt.Bool(true)
		for i := range xv.path {
			a, b := xv.path[i], yv.path[i]
			if a.field != b.field {
				return tt.Bool(false)
			}
			if a.sym != nil || b.sym != nil {
				at, bt := a.sym, b.sym
				if at == nil {
					at = ex.idxConst(bt, a.idx)
				}
				if bt == nil {
					bt = ex.idxConst(at, b.idx)
				}
				c = tt.And(c, tt.Eq(at, bt))
			} else if a.idx != b.idx {
				return tt.Bool(false)
			}
		}
		return c
	case IfaceV:
		yv := y.(IfaceV)
		if xv.typ == nil || yv.typ == nil {
			return tt.Bool(xv.typ == nil && yv.typ == nil)
		}
		if !types.Identical(xv.typ, yv.typ) {
			return tt.Bool(false)
		}
		if !types.Comparable(xv.typ) {
			ex.runtimePanic("runtime error: comparing uncomparable type " + xv.typ.String())
		}
		return ex.eqValue(xv.val, yv.val, xv.typ)
	case *StructV:
		yv := y.(*StructV)
		st := t.Underlying().(*types.Struct)
		c := tt.Bool(true)
		for i := range xv.f {
			if st.Field(i).Name() == "_" {
				continue
			}
			c = tt.And(c, ex.eqValue(xv.f[i], yv.f[i], st.Field(i).Type()))
		}
		return c
	case *ArrayV:
		yv := y.(*ArrayV)
		et := t.Underlying().(*types.Array).Elem()
		c := tt.Bool(true)
		for i := range xv.e {
			c = tt.And(c, ex.eqValue(xv.e[i], yv.e[i], et))
		}
		return c
	case *FuncV:
		yv, _ := y.(*FuncV)
		return tt.Bool(xv == nil && yv == nil || (xv != nil && yv != nil && xv == yv))
	case *MapV:
		yv, _ := y.(*MapV)
		return tt.Bool(xv == yv)
	case *ChanV:
		yv, _ := y.(*ChanV)
		return tt.Bool(xv == yv)
	case SliceV:
		// only comparison with nil is legal
		yv := y.(SliceV)
		return tt.Bool(xv.arr == nil && yv.arr == nil)
	case OpaqueV:
		yv, ok := y.(OpaqueV)
		return tt.Bool(ok && xv.data == yv.data)
	case nil:
		return tt.Bool(y == nil)
	}
	ex.unsupported("eqValue on %T", x)
	return nil
}

// ---------- UnOp ----------

func (ex *Exec) unop(fr *frame, in *ssa.UnOp) Value {
	x := ex.get(fr, in.X)
	tt := ex.tt
	switch in.Op {
	case token.MUL:
		p := x.(PtrV)
		ex.nilCheck(p)
		return ex.load(p)
	case token.NOT:
		return tt.Not(x.(*Term))
	case token.SUB:
		t := x.(*Term)
		if isFloatType(in.X.Type()) {
			return tt.FNeg(t)
		}
		if ex.intMode {
			return ex.fitType(tt.IntNeg(t), in.X.Type())
		}
		return tt.BVNeg(t)
	case token.XOR:
		t := x.(*Term)
		if ex.intMode {
			// ^x = -x-1 (signed) ; 2^w-1-x (unsigned)
			if isSigned(in.X.Type()) {
				return tt.IntBin("-", tt.IntNeg(t), tt.Int64(1))
			}
			_, hi := typeRange(in.X.Type())
			return tt.IntBin("-", tt.Int(hi), t)
		}
		return tt.BVNot(t)
	case token.ARROW:
		return ex.chanRecv(x, in.CommaOk)
	}
	ex.unsupported("unop %s", in.Op)
	return nil
}

// ---------- conversions ----------

func (ex *Exec) convert(x Value, from, to types.Type) Value {
	tt := ex.tt
	fu, tu := from.Underlying(), to.Underlying()
	if tp, ok := tu.(*types.TypeParam); ok {
		_ = tp
		ex.unsupported("convert to type parameter")
	}
	switch {
	case isIntType(from) && isIntType(to):
		t := x.(*Term)
		if ex.intMode {
			return ex.fitType(t, to)
		}
		tw := basicWidth(tu.(*types.Basic))
		fw := t.sort.W
		if tw <= fw {
			return tt.Extract(t, tw-1, 0)
		}
		if isSigned(from) {
			return tt.SExt(t, tw)
		}
		return tt.ZExt(t, tw)
	case isIntType(from) && isFloatType(to):
		t := x.(*Term)
		f32 := tu.(*types.Basic).Kind() == types.Float32
		if t.isConst {
			var f float64
			if ex.intMode {
				f, _ = new(big.Float).SetInt(t.bi).Float64()
			} else if isSigned(from) {
				f = float64(sext(t.u, t.sort.W))
			} else {
				f = float64(t.u)
			}
			if f32 {
				return tt.F32(float32(f))
			}
			return tt.F64(f)
		}
		so, hd := F64Sort, "(_ to_fp 11 53) RNE"
		if f32 {
			so, hd = F32Sort, "(_ to_fp 8 24) RNE"
		}
		if ex.fpAbstract {
			ex.stubsHit["integer to floating-point conversion of a symbolic value: arbitrary result (fp=abstract)"] = true
			return ex.tt.Var(ex.newVarName("fpabs"), so)
		}
		if ex.intMode {
			return tt.app(hd, so, tt.app("to_real", Sort{K: SInt, W: -1}, t))
		}
		if !isSigned(from) {
			if f32 {
				hd = "(_ to_fp_unsigned 8 24) RNE"
			} else {
				hd = "(_ to_fp_unsigned 11 53) RNE"
			}
		}
		return tt.app(hd, so, t)
	case isFloatType(from) && isIntType(to):
		t := x.(*Term)
		tw := basicWidth(tu.(*types.Basic))
		if t.isConst {
			f := t.f
			if isSigned(to) {
				return ex.mkInt(int64(f), to)
			}
			return ex.mkUint(uint64(f), to)
		}
		if ex.fpAbstract {
			ex.stubsHit["floating-point to integer conversion of a symbolic value: arbitrary result (fp=abstract)"] = true
			return ex.newSymInt("fpabs", to, false)
		}
		var r *Term
		if isSigned(to) {
			r = tt.app(fmt.Sprintf("(_ fp.to_sbv %d) RTZ", tw), BVSort(tw), t)
		} else {
			r = tt.app(fmt.Sprintf("(_ fp.to_ubv %d) RTZ", tw), BVSort(tw), t)
		}
		if ex.intMode {
			return ex.bv2int(r, isSigned(to))
		}
		return r
	case isFloatType(from) && isFloatType(to):
		t := x.(*Term)
		fk, tk := fu.(*types.Basic).Kind(), tu.(*types.Basic).Kind()
		if fk == tk || (fk == types.UntypedFloat && tk == types.Float64) {
			return t
		}
		if t.isConst {
			if tk == types.Float32 {
				return tt.F32(float32(t.f))
			}
			return tt.F64(t.f)
		}
		if tk == types.Float32 {
			return tt.app("(_ to_fp 8 24) RNE", F32Sort, t)
		}
		return tt.app("(_ to_fp 11 53) RNE", F64Sort, t)
	}
	// string <-> []byte
	if isStringType(from) {
		s := x.(*StrV)
		if sl, ok := tu.(*types.Slice); ok {
			eb, _ := sl.Elem().Underlying().(*types.Basic)
			if eb != nil && eb.Kind() == types.Uint8 {
				if s.opaque {
					o := ex.newSymBytesObj(s.n, s.arr)
					return SliceV{arr: o, off: ex.intc(0), len: s.n, cap: s.n}
				}
				bs := ex.strBytes(s)
				o := ex.newArrObj(sl.Elem(), len(bs), "[]byte(string)")
				for i, b := range bs {
					o.elems[i] = b
				}
				n := ex.intc(int64(len(bs)))
				return SliceV{arr: o, off: ex.intc(0), len: n, cap: n}
			}
			if eb != nil && eb.Kind() == types.Int32 {
				// []rune(string): ASCII-only model
				bs := ex.strBytes(s)
				o := ex.newArrObj(sl.Elem(), len(bs), "[]rune(string)")
				for i, b := range bs {
					ex.assumeASCII(b)
					o.elems[i] = ex.widenByte(b, sl.Elem())
				}
				n := ex.intc(int64(len(bs)))
				return SliceV{arr: o, off: ex.intc(0), len: n, cap: n}
			}
		}
		if isStringType(to) {
			return s
		}
	}
	if isStringType(to) {
		if sl, ok := fu.(*types.Slice); ok {
			s := x.(SliceV)
			eb, _ := sl.Elem().Underlying().(*types.Basic)
			if eb != nil && eb.Kind() == types.Uint8 {
				return ex.sliceToStr(s)
			}
			if eb != nil && eb.Kind() == types.Int32 {
				n := int(ex.termInt64(ex.concretize(s.len, "len([]rune)")))
				bs := make([]*Term, n)
				for i := 0; i < n; i++ {
					r := ex.load(ex.sliceElemPtr(s, ex.intc(int64(i)))).(*Term)
					b := ex.convert(r, sl.Elem(), tUint8).(*Term)
					ex.assumeASCII(b)
					bs[i] = b
				}
				return ex.mkStr(bs)
			}
		}
		if isIntType(from) {
			// string(rune)
			t := x.(*Term)
			if t.isConst {
				return concStr(string(rune(ex.termInt64(t))))
			}
			b := ex.convert(t, from, tUint8).(*Term)
			ex.assumeASCII(b)
			return ex.mkStr([]*Term{b})
		}
	}
	// pointer <-> unsafe.Pointer, named pointer conversions, slice -> array etc.
	if _, ok := x.(PtrV); ok {
		return x
	}
	if sl, ok := x.(SliceV); ok {
		if at, ok2 := tu.(*types.Array); ok2 {
			n := int(at.Len())
			ex.check(ex.cmpInt("<=", ex.intc(int64(n)), sl.len, true), "cannot convert slice to array: length too short")
			e := make([]Value, n)
			for i := range e {
				e[i] = ex.load(ex.sliceElemPtr(sl, ex.intc(int64(i))))
			}
			return &ArrayV{e: e}
		}
		return x
	}
	if types.Identical(fu, tu) {
		return x
	}
	ex.unsupported("convert %s -> %s", from, to)
	return nil
}

func isStringType(t types.Type) bool {
	b, ok := t.Underlying().(*types.Basic)
	return ok && b.Info()&types.IsString != 0
}

func (ex *Exec) assumeASCII(b *Term) {
	c := ex.cmpInt("<", b, ex.bytec(0x80), false)
	if c.isConst {
		if c.u == 0 {
			ex.unsupported("non-ASCII byte in rune conversion")
		}
		return
	}
	if !ex.entails(c) {
		// restrict the claim: record assumption
		ex.noteAssume("strings decoded as runes are ASCII")
		ex.addPC(c)
		if ex.feasible(ex.tt.Bool(true)) == Unsat {
			ex.end("infeasible", "ascii assumption")
		}
	}
}

func (ex *Exec) widenByte(b *Term, to types.Type) *Term {
	if ex.intMode {
		return b
	}
	return ex.tt.ZExt(b, basicWidth(to.Underlying().(*types.Basic)))
}

func (ex *Exec) noteAssume(s string) {
	ex.h.mu.Lock()
	if ex.h.Assumes == nil {
		ex.h.Assumes = map[string]bool{}
	}
	ex.h.Assumes[s] = true
	ex.h.mu.Unlock()
}

// ---------- strings ----------

func (ex *Exec) strBytes(s *StrV) []*Term {
	if s.opaque {
		n := ex.termInt64(ex.concretize(s.n, "opaque string length"))
		bs := make([]*Term, n)
		for i := range bs {
			bs[i] = ex.tt.Select(s.arr, ex.intc(int64(i)))
		}
		return bs
	}
	if s.bs == nil && s.hexSrc != nil {
		bs := make([]*Term, 0, 2*len(s.hexSrc))
		for _, b := range s.hexSrc {
			for _, nib := range []*Term{ex.intArith(token.SHR, b, ex.bytec(4), tUint8, tUint8), ex.intArith(token.AND, b, ex.bytec(15), tUint8, tUint8)} {
				lt := ex.cmpInt("<", nib, ex.bytec(10), false)
				d := ex.intArith(token.ADD, nib, ex.bytec('0'), tUint8, tUint8)
				l := ex.intArith(token.ADD, nib, ex.bytec('a'-10), tUint8, tUint8)
				bs = append(bs, ex.tt.Ite(lt, d, l))
			}
		}
		s.bs = bs
	}
	if s.conc && s.bs == nil {
		bs := make([]*Term, len(s.s))
		for i := 0; i < len(s.s); i++ {
			bs[i] = ex.bytec(s.s[i])
		}
		s.bs = bs
	}
	return s.bs
}

func (ex *Exec) mkStr(bs []*Term) *StrV {
	all := true
	for _, b := range bs {
		if !b.isConst {
			all = false
			break
		}
	}
	if all {
		buf := make([]byte, len(bs))
		for i, b := range bs {
			if b.sort.K == SInt {
				buf[i] = byte(b.bi.Int64())
			} else {
				buf[i] = byte(b.u)
			}
		}
		return &StrV{conc: true, s: string(buf), bs: bs}
	}
	return &StrV{bs: bs}
}

func (ex *Exec) strLenTerm(s *StrV) *Term {
	if s.opaque {
		return s.n
	}
	return ex.intc(int64(s.Len()))
}

func (ex *Exec) strConcat(a, b *StrV) *StrV {
	if a.conc && b.conc {
		return concStr(a.s + b.s)
	}
	if !a.opaque && a.Len() == 0 {
		return b
	}
	if !b.opaque && b.Len() == 0 {
		return a
	}
	x, y := ex.strBytes(a), ex.strBytes(b)
	bs := make([]*Term, 0, len(x)+len(y))
	bs = append(bs, x...)
	bs = append(bs, y...)
	return ex.mkStr(bs)
}

func (ex *Exec) strEq(a, b *StrV) *Term {
	if a.conc && b.conc {
		return ex.tt.Bool(a.s == b.s)
	}
	if a.opaque || b.opaque {
		if a == b {
			return ex.tt.Bool(true)
		}
		// compare lengths then materialise
		la, lb := ex.strLenTerm(a), ex.strLenTerm(b)
		if !ex.branch(ex.tt.Eq(la, lb)) {
			return ex.tt.Bool(false)
		}
	}
	x, y := ex.strBytes(a), ex.strBytes(b)
	if len(x) != len(y) {
		return ex.tt.Bool(false)
	}
	c := ex.tt.Bool(true)
	for i := range x {
		c = ex.tt.And(c, ex.tt.Eq(x[i], y[i]))
		if c.isConst && c.u == 0 {
			return c
		}
	}
	return c
}

func (ex *Exec) strLess(a, b *StrV, orEq bool) *Term {
	if a.conc && b.conc {
		if orEq {
			return ex.tt.Bool(a.s <= b.s)
		}
		return ex.tt.Bool(a.s < b.s)
	}
	x, y := ex.strBytes(a), ex.strBytes(b)
	n := len(x)
	if len(y) < n {
		n = len(y)
	}
	// result if all of the first n bytes are equal
	var res *Term
	if len(x) < len(y) {
		res = ex.tt.Bool(true)
	} else if len(x) == len(y) {
		res = ex.tt.Bool(orEq)
	} else {
		res = ex.tt.Bool(false)
	}
	for i := n - 1; i >= 0; i-- {
		lt := ex.cmpInt("<", x[i], y[i], false)
		eq := ex.tt.Eq(x[i], y[i])
		res = ex.tt.Or(lt, ex.tt.And(eq, res))
	}
	return res
}

func (ex *Exec) sliceToStr(s SliceV) *StrV {
	if s.arr == nil {
		return concStr("")
	}
	if s.arr.symN != nil && s.arr.arrT != nil && !s.len.isConst {
		// opaque string view: shift the array if needed
		if s.off.isConst && ex.termInt64(s.off) == 0 {
			return &StrV{opaque: true, n: s.len, arr: s.arr.arrT}
		}
		ex.unsupported("string() of opaque slice at non-zero offset with symbolic length")
	}
	n := int(ex.termInt64(ex.concretize(s.len, "len for string()")))
	bs := make([]*Term, n)
	for i := 0; i < n; i++ {
		bs[i] = ex.load(ex.sliceElemPtr(s, ex.intc(int64(i)))).(*Term)
	}
	return ex.mkStr(bs)
}

// ---------- slices ----------

func (ex *Exec) newSymBytesObj(n *Term, arr *Term) *Object {
	ex.objN++
	return &Object{id: ex.objN, typ: tUint8, isArr: true, symN: n, arrT: arr, label: "opaque-bytes"}
}

func (ex *Exec) constArr() *Term {
	so := ex.arrSort()
	zero := ex.bytec(0)
	return ex.tt.app("(as const "+so.String()+")", so, zero)
}

func (ex *Exec) makeSlice(elem types.Type, n, c *Term, nt, ct types.Type) Value {
	// bring len/cap to type int
	n = ex.convert(n, nt, tInt).(*Term)
	c = ex.convert(c, ct, tInt).(*Term)
	zero := ex.intc(0)
	limit := ex.intc(1 << 40)
	ex.check(ex.tt.And(ex.cmpInt("<=", zero, n, true), ex.cmpInt("<=", n, limit, true)), "makeslice: len out of range")
	ex.check(ex.tt.And(ex.cmpInt("<=", n, c, true), ex.cmpInt("<=", c, limit, true)), "makeslice: cap out of range")
	ex.allocLog = append(ex.allocLog, c)
	if !c.isConst || !n.isConst {
		if ex.symAlloc {
			ex.objN++
			o := &Object{id: ex.objN, typ: elem, isArr: true, symN: c, label: "make(sym)"}
			if eb, ok := elem.Underlying().(*types.Basic); ok && eb.Kind() == types.Uint8 {
				o.arrT = ex.constArr()
			} else {
				o.sparse = map[int64]Value{}
				o.zero = func() Value { return ex.zeroValue(elem) }
			}
			return SliceV{arr: o, off: zero, len: n, cap: c}
		}
		c = ex.concretize(c, "make cap")
		n = ex.concretize(n, "make len")
	}
	cn := ex.termInt64(c)
	if cn > ex.eng.maxAlloc {
		ex.end("unsupported", fmt.Sprintf("allocation of %d elements exceeds engine bound %d", cn, ex.eng.maxAlloc))
	}
	o := ex.newArrObj(elem, int(cn), "make")
	return SliceV{arr: o, off: zero, len: n, cap: c}
}

// sliceElemPtr computes &s[i] without bounds check.
func (ex *Exec) sliceElemPtr(s SliceV, i *Term) PtrV {
	abs := ex.addInt(s.off, i)
	if abs.isConst {
		return PtrV{obj: s.arr, path: []pathElem{{field: -1, idx: ex.termInt64(abs)}}}
	}
	return PtrV{obj: s.arr, path: []pathElem{{field: -1, sym: abs}}}
}

func (ex *Exec) toIntIdx(i *Term, it types.Type) *Term {
	// index operands may be of any integer type; bring to int preserving value
	if ex.intMode {
		return i
	}
	w := i.sort.W
	if w == 64 {
		return i
	}
	if isSigned(it) {
		return ex.tt.SExt(i, 64)
	}
	return ex.tt.ZExt(i, 64)
}

func (ex *Exec) inBounds(i, n *Term, it types.Type) *Term {
	// 0 <= i < n
	if ex.intMode {
		return ex.tt.And(ex.tt.IntCmp("<=", ex.tt.Int64(0), i), ex.tt.IntCmp("<", i, n))
	}
	if it != nil && !isSigned(it) && i.sort.W == 64 {
		// uint64 index: must also be < 2^63 — n is non-negative so unsigned compare suffices
	}
	return ex.tt.BVCmp("bvult", i, n)
}

func (ex *Exec) indexAddr(x Value, i *Term, it types.Type, xt types.Type) Value {
	i = ex.toIntIdx(i, it)
	switch xv := x.(type) {
	case SliceV:
		ex.check(ex.inBounds(i, xv.len, it), "index out of range")
		return ex.sliceElemPtr(xv, i)
	case PtrV:
		ex.nilCheck(xv)
		at := xt.Underlying().(*types.Pointer).Elem().Underlying().(*types.Array)
		ex.check(ex.inBounds(i, ex.intc(at.Len()), it), "index out of range")
		if xv.viewLen > 0 {
			i = ex.addInt(i, ex.intc(xv.base))
		}
		if i.isConst {
			return PtrV{obj: xv.obj, path: extendPath(xv.path, pathElem{field: -1, idx: ex.termInt64(i)})}
		}
		return PtrV{obj: xv.obj, path: extendPath(xv.path, pathElem{field: -1, sym: i})}
	}
	ex.unsupported("IndexAddr on %T", x)
	return nil
}

func (ex *Exec) indexValue(x Value, i *Term, it types.Type) Value {
	i = ex.toIntIdx(i, it)
	switch xv := x.(type) {
	case *ArrayV:
		ex.check(ex.inBounds(i, ex.intc(int64(len(xv.e))), it), "index out of range")
		if i.isConst {
			return xv.e[ex.termInt64(i)]
		}
		return ex.symSelect(xv.e, i, nil)
	case *StrV:
		return ex.strIndex(xv, i, it)
	}
	ex.unsupported("Index on %T", x)
	return nil
}

func (ex *Exec) strIndex(s *StrV, i *Term, it types.Type) *Term {
	if s.opaque {
		ex.check(ex.inBounds(i, s.n, it), "index out of range")
		return ex.tt.Select(s.arr, i)
	}
	n := s.Len()
	ex.check(ex.inBounds(i, ex.intc(int64(n)), it), "index out of range")
	if i.isConst {
		k := ex.termInt64(i)
		if s.conc {
			return ex.bytec(s.s[k])
		}
		return s.bs[k]
	}
	bs := ex.strBytes(s)
	acc := bs[n-1]
	for k := n - 2; k >= 0; k-- {
		acc = ex.tt.Ite(ex.tt.Eq(i, ex.idxConst(i, int64(k))), bs[k], acc)
	}
	return acc
}

func (ex *Exec) sliceOp(fr *frame, in *ssa.Slice) Value {
	x := ex.get(fr, in.X)
	getIdx := func(v ssa.Value) *Term {
		if v == nil {
			return nil
		}
		return ex.toIntIdx(ex.get(fr, v).(*Term), v.Type())
	}
	lo, hi, max := getIdx(in.Low), getIdx(in.High), getIdx(in.Max)
	zero := ex.intc(0)
	if lo == nil {
		lo = zero
	}
	le := func(a, b *Term) *Term {
		if ex.intMode {
			return ex.tt.IntCmp("<=", a, b)
		}
		return ex.tt.BVCmp("bvule", a, b) // unsigned: catches negatives
	}
	switch xv := x.(type) {
	case *StrV:
		n := ex.strLenTerm(xv)
		if hi == nil {
			hi = n
		}
		ex.check(ex.tt.And(ex.tt.And(le(zero, lo), le(hi, n)), le(lo, hi)), "slice bounds out of range")
		if xv.opaque {
			ex.unsupported("slicing an opaque string")
		}
		l := int(ex.termInt64(ex.concretize(lo, "string slice low")))
		h := int(ex.termInt64(ex.concretize(hi, "string slice high")))
		if xv.conc {
			return concStr(xv.s[l:h])
		}
		return ex.mkStr(xv.bs[l:h])
	case SliceV:
		if hi == nil {
			hi = xv.len
		}
		if max == nil {
			max = xv.cap
		}
		ex.check(ex.tt.And(ex.tt.And(le(zero, lo), le(max, xv.cap)), ex.tt.And(le(lo, hi), le(hi, max))), "slice bounds out of range")
		if xv.arr == nil {
			return xv
		}
		return SliceV{arr: xv.arr, off: ex.addInt(xv.off, lo), len: ex.subInt(hi, lo), cap: ex.subInt(max, lo)}
	case PtrV:
		ex.nilCheck(xv)
		at := in.X.Type().Underlying().(*types.Pointer).Elem().Underlying().(*types.Array)
		n := ex.intc(at.Len())
		if hi == nil {
			hi = n
		}
		if max == nil {
			max = n
		}
		ex.check(ex.tt.And(ex.tt.And(le(zero, lo), le(max, n)), ex.tt.And(le(lo, hi), le(hi, max))), "slice bounds out of range")
		obj, base := ex.arrayObjOf(xv, int(at.Len()), at.Elem())
		return SliceV{arr: obj, off: ex.addInt(ex.intc(base), lo), len: ex.subInt(hi, lo), cap: ex.subInt(max, lo)}
	}
	ex.unsupported("Slice on %T", x)
	return nil
}

// arrayObjOf returns an array-like object (and base offset) aliasing the array
// that p points to. Arrays embedded in structs are "promoted": they are moved
// into their own object and the struct field is replaced by a reference.
func (ex *Exec) arrayObjOf(p PtrV, n int, elem types.Type) (*Object, int64) {
	if p.obj.isArr && len(p.path) == 0 {
		return p.obj, p.base
	}
	// embedded array: promote
	cur := ex.load(p)
	if ref, ok := cur.(*ArrayRef); ok {
		return ref.obj, 0
	}
	av := cur.(*ArrayV)
	o := ex.newArrObj(elem, n, "promoted-array")
	copy(o.elems, av.e)
	ex.hasRefs = true
	o2 := p.obj
	if !o2.isArr {
		o2.val = ex.setAtRaw(o2.val, p.path, &ArrayRef{obj: o})
	} else {
		ex.unsupported("slice of array nested in array element")
	}
	return o, 0
}

// ArrayRef stands in for an array value that has been promoted to its own
// object because a slice of it was taken.
type ArrayRef struct{ obj *Object }

// ---------- builtins ----------

func (ex *Exec) lenOf(v Value) *Term {
	switch x := v.(type) {
	case *StrV:
		return ex.strLenTerm(x)
	case SliceV:
		return x.len
	case *MapV:
		if x == nil {
			return ex.intc(0)
		}
		return ex.intc(int64(x.count()))
	case *ChanV:
		if x == nil {
			return ex.intc(0)
		}
		return ex.intc(int64(len(x.buf)))
	case *ArrayV:
		return ex.intc(int64(len(x.e)))
	case PtrV: // *array
		if x.obj != nil && x.obj.isArr && len(x.path) == 0 {
			return ex.intc(int64(len(x.obj.elems)))
		}
	}
	ex.unsupported("len of %T", v)
	return nil
}

func (ex *Exec) callBuiltin(fr *frame, b *ssa.Builtin, args []Value, c *ssa.CallCommon) Value {
	switch b.Name() {
	case "len":
		if p, ok := args[0].(PtrV); ok && c != nil {
			at := c.Args[0].Type().Underlying().(*types.Pointer).Elem().Underlying().(*types.Array)
			_ = p
			return ex.intc(at.Len())
		}
		return ex.lenOf(args[0])
	case "cap":
		switch x := args[0].(type) {
		case SliceV:
			return x.cap
		case *ChanV:
			if x == nil {
				return ex.intc(0)
			}
			return ex.intc(int64(x.cap))
		case PtrV:
			at := c.Args[0].Type().Underlying().(*types.Pointer).Elem().Underlying().(*types.Array)
			return ex.intc(at.Len())
		}
	case "append":
		return ex.appendOp(args[0].(SliceV), args[1], c)
	case "copy":
		return ex.copyOp(args[0].(SliceV), args[1])
	case "delete":
		ex.mapDelete(args[0], args[1])
		return nil
	case "print", "println":
		return nil
	case "recover":
		return ex.doRecover(fr)
	case "close":
		ex.chanClose(args[0])
		return nil
	case "min", "max":
		acc := args[0].(*Term)
		t := c.Args[0].Type()
		for _, a := range args[1:] {
			y := a.(*Term)
			var lt *Term
			if isFloatType(t) {
				lt = ex.tt.FCmp("fp.lt", y, acc)
			} else {
				lt = ex.cmpInt("<", y, acc, isSigned(t))
			}
			if b.Name() == "max" {
				if isFloatType(t) {
					lt = ex.tt.FCmp("fp.gt", y, acc)
				} else {
					lt = ex.cmpInt(">", y, acc, isSigned(t))
				}
			}
			acc = ex.tt.Ite(lt, y, acc)
		}
		return acc
	case "clear":
		switch x := args[0].(type) {
		case *MapV:
			if x != nil {
				for _, e := range x.ents {
					e.deleted = true
				}
				x.ents = nil
			}
			return nil
		case SliceV:
			n := int(ex.termInt64(ex.concretize(x.len, "clear len")))
			et := c.Args[0].Type().Underlying().(*types.Slice).Elem()
			for i := 0; i < n; i++ {
				ex.store(ex.sliceElemPtr(x, ex.intc(int64(i))), ex.zeroValue(et))
			}
			return nil
		}
	case "ssa:wrapnilchk":
		p := args[0].(PtrV)
		ex.nilCheck(p)
		return p
	case "String": // unsafe.String(ptr, len)
		p := args[0].(PtrV)
		n := args[1].(*Term)
		if p.obj == nil {
			return concStr("")
		}
		s := ex.sliceFromPtr(p, n)
		return ex.sliceToStr(s)
	case "StringData":
		s := args[0].(*StrV)
		bs := ex.strBytes(s)
		o := ex.newArrObj(tUint8, len(bs), "StringData")
		for i, bt := range bs {
			o.elems[i] = bt
		}
		return PtrV{obj: o, path: []pathElem{{field: -1, idx: 0}}}
	case "SliceData":
		s := args[0].(SliceV)
		if s.arr == nil {
			return PtrV{}
		}
		return ex.sliceElemPtr(s, ex.intc(0))
	case "Slice": // unsafe.Slice(ptr, len)
		p := args[0].(PtrV)
		n := ex.convert(args[1], c.Args[1].Type(), tInt).(*Term)
		if p.obj == nil {
			return SliceV{off: ex.intc(0), len: ex.intc(0), cap: ex.intc(0)}
		}
		return ex.sliceFromPtr(p, n)
	}
	ex.unsupported("builtin %s on %T", b.Name(), args)
	return nil
}

// sliceFromPtr builds a slice starting at element pointer p.
func (ex *Exec) sliceFromPtr(p PtrV, n *Term) SliceV {
	if !p.obj.isArr || len(p.path) != 1 {
		if p.obj.isArr && len(p.path) == 0 {
			return SliceV{arr: p.obj, off: ex.intc(0), len: n, cap: n}
		}
		ex.unsupported("unsafe slice from non-array pointer")
	}
	e := p.path[0]
	var off *Term
	if e.sym != nil {
		off = e.sym
	} else {
		off = ex.intc(e.idx)
	}
	return SliceV{arr: p.obj, off: off, len: n, cap: n}
}

func (ex *Exec) doRecover(fr *frame) Value {
	// recover is effective only when called directly by a deferred function
	// whose caller frame is panicking.
	th := ex.cur
	n := len(th.frames)
	if n >= 2 {
		parent := th.frames[n-2]
		if parent.panicking != nil && th.frames[n-1] == fr {
			gp := parent.panicking
			parent.panicking = nil
			return gp.val
		}
	}
	return IfaceV{}
}

func (ex *Exec) appendOp(s SliceV, more Value, c *ssa.CallCommon) Value {
	var et types.Type
	if c != nil {
		et = c.Args[0].Type().Underlying().(*types.Slice).Elem()
	} else if s.arr != nil {
		et = s.arr.typ
	}
	// elements to add
	var add []Value
	switch m := more.(type) {
	case SliceV:
		if m.arr != nil || !m.len.isConst {
			n := int(ex.termInt64(ex.concretize(m.len, "append src len")))
			for i := 0; i < n; i++ {
				add = append(add, ex.load(ex.sliceElemPtr(m, ex.intc(int64(i)))))
			}
		}
	case *StrV:
		for _, b := range ex.strBytes(m) {
			add = append(add, b)
		}
	default:
		ex.unsupported("append of %T", more)
	}
	if len(add) == 0 {
		return s
	}
	ln := ex.termInt64(ex.concretize(s.len, "append dst len"))
	cp := ex.termInt64(ex.concretize(s.cap, "append dst cap"))
	need := ln + int64(len(add))
	if need <= cp && s.arr != nil {
		for i, v := range add {
			ex.store(ex.sliceElemPtr(s, ex.intc(ln+int64(i))), v)
		}
		return SliceV{arr: s.arr, off: s.off, len: ex.intc(need), cap: s.cap}
	}
	// grow (approximation of runtime.growslice; only aliasing-sensitive code can tell)
	newcap := cp * 2
	if cp >= 256 {
		newcap = cp + (cp+3*256)/4
	}
	if newcap < need {
		newcap = need
	}
	if et == nil {
		ex.unsupported("append: unknown element type")
	}
	o := ex.newArrObj(et, int(newcap), "append")
	for i := int64(0); i < ln; i++ {
		o.elems[i] = ex.load(ex.sliceElemPtr(s, ex.intc(i)))
	}
	for i, v := range add {
		o.elems[ln+int64(i)] = v
	}
	return SliceV{arr: o, off: ex.intc(0), len: ex.intc(need), cap: ex.intc(newcap)}
}

func (ex *Exec) copyOp(dst SliceV, src Value) Value {
	var sl *Term
	var get func(i int64) Value
	switch s := src.(type) {
	case SliceV:
		sl = s.len
		get = func(i int64) Value { return ex.load(ex.sliceElemPtr(s, ex.intc(i))) }
	case *StrV:
		sl = ex.strLenTerm(s)
		if s.opaque {
			get = func(i int64) Value { return ex.tt.Select(s.arr, ex.intc(i)) }
		} else {
			bs := ex.strBytes(s)
			get = func(i int64) Value { return bs[i] }
		}
	default:
		ex.unsupported("copy from %T", src)
	}
	// n = min(len(dst), len(src))
	n := ex.tt.Ite(ex.cmpInt("<", sl, dst.len, true), sl, dst.len)
	if !n.isConst {
		if r, ok := ex.symCopy(dst, src, n); ok {
			return r
		}
		n = ex.concretize(n, "copy length")
	}
	k := ex.termInt64(n)
	if k == 0 {
		return n
	}
	// handle overlap: read all first
	vals := make([]Value, k)
	for i := int64(0); i < k; i++ {
		vals[i] = get(i)
	}
	for i := int64(0); i < k; i++ {
		ex.store(ex.sliceElemPtr(dst, ex.intc(i)), vals[i])
	}
	return n
}

// ---------- maps ----------

type mapEnt struct {
	key, val Value
	deleted  bool
}

func (m *MapV) count() int { return len(m.ents) }

func (ex *Exec) mapFind(m *MapV, key Value) *mapEnt {
	if m == nil {
		return nil
	}
	for _, e := range m.ents {
		eq := ex.eqValue(key, e.key, m.kt)
		if eq.isConst {
			if eq.u == 1 {
				return e
			}
			continue
		}
		if ex.branch(eq) {
			return e
		}
	}
	return nil
}

func (ex *Exec) lookup(in *ssa.Lookup, x, idx Value) Value {
	switch xv := x.(type) {
	case *StrV:
		return ex.strIndex(xv, ex.toIntIdx(idx.(*Term), in.Index.Type()), in.Index.Type())
	case *MapV:
		e := ex.mapFind(xv, idx)
		var v Value
		if e != nil {
			v = e.val
		} else {
			v = ex.zeroValue(in.X.Type().Underlying().(*types.Map).Elem())
		}
		if in.CommaOk {
			return TupleV{v, ex.tt.Bool(e != nil)}
		}
		return v
	}
	ex.unsupported("Lookup on %T", x)
	return nil
}

func (ex *Exec) mapUpdate(mv, key, val Value) {
	m := mv.(*MapV)
	if m == nil {
		ex.runtimePanic("assignment to entry in nil map")
	}
	if e := ex.mapFind(m, key); e != nil {
		e.val = val
		return
	}
	m.ents = append(m.ents, &mapEnt{key: key, val: val})
}

func (ex *Exec) mapDelete(mv, key Value) {
	m := mv.(*MapV)
	if m == nil {
		return
	}
	if e := ex.mapFind(m, key); e != nil {
		e.deleted = true
		for i, x := range m.ents {
			if x == e {
				m.ents = append(m.ents[:i:i], m.ents[i+1:]...)
				break
			}
		}
	}
}

func (ex *Exec) rangeIter(x Value) Value {
	switch xv := x.(type) {
	case *StrV:
		return &IterV{str: xv}
	case *MapV:
		it := &IterV{m: xv}
		if xv != nil {
			n := len(xv.ents)
			it.ents = append([]*mapEnt(nil), xv.ents...)
			if n > 1 && !(ex.mapFixed || ex.inHarnessFrame()) {
				// nondeterministic iteration order: any element may come first
				// (full permutations when the harness asks for it); loops written
				// in the harness itself, and code the harness declares
				// order-insensitive (verifMapOrder(false)), iterate in insertion order
				if ex.mapPerm && n <= 4 {
					rest := it.ents
					var out []*mapEnt
					for len(rest) > 0 {
						k := ex.choose(len(rest), "map order")
						out = append(out, rest[k])
						rest = append(append([]*mapEnt(nil), rest[:k]...), rest[k+1:]...)
					}
					it.ents = out
				} else {
					k := ex.choose(n, "map first")
					if k != 0 {
						first := it.ents[k]
						rest := append(append([]*mapEnt(nil), it.ents[:k]...), it.ents[k+1:]...)
						it.ents = append([]*mapEnt{first}, rest...)
					}
				}
			}
		}
		return it
	}
	ex.unsupported("range over %T", x)
	return nil
}

func (ex *Exec) next(in *ssa.Next, it *IterV) Value {
	if in.IsString {
		s := it.str
		bs := ex.strBytes(s)
		if it.spos >= len(bs) {
			return TupleV{ex.tt.Bool(false), ex.intc(0), ex.mkInt(0, types.Typ[types.Int32])}
		}
		i := it.spos
		b := bs[i]
		if b.isConst && s.conc {
			// decode properly
			for j, r := range s.s[i:] {
				_ = j
				sz := len(string(r))
				if r == 0xFFFD {
					sz = 1
				}
				it.spos += sz
				return TupleV{ex.tt.Bool(true), ex.intc(int64(i)), ex.mkInt(int64(r), types.Typ[types.Int32])}
			}
		}
		ex.assumeASCII(b)
		it.spos++
		return TupleV{ex.tt.Bool(true), ex.intc(int64(i)), ex.widenByte(b, types.Typ[types.Int32])}
	}
	for it.pos < len(it.ents) {
		e := it.ents[it.pos]
		it.pos++
		if e.deleted {
			continue
		}
		return TupleV{ex.tt.Bool(true), e.key, e.val}
	}
	mt := in.Iter.(*ssa.Range).X.Type().Underlying().(*types.Map)
	return TupleV{ex.tt.Bool(false), ex.zeroValue(mt.Key()), ex.zeroValue(mt.Elem())}
}

// setAtRaw replaces the value at path without ArrayRef indirection.
func (ex *Exec) setAtRaw(v Value, path []pathElem, nv Value) Value {
	if len(path) == 0 {
		return nv
	}
	e := path[0]
	switch x := v.(type) {
	case *StructV:
		f := make([]Value, len(x.f))
		copy(f, x.f)
		f[e.field] = ex.setAtRaw(x.f[e.field], path[1:], nv)
		return &StructV{f: f}
	}
	ex.unsupported("promote array nested in %T", v)
	return nil
}
