package main

// Channels and select, modelled the way the Go runtime implements them: every
// channel has a queue of parked receivers and a queue of parked senders; an
// operation that finds a parked partner completes that partner directly (the
// partner's select, if any, is thereby committed to that case and withdrawn
// from all its other channels); otherwise it uses the buffer, and otherwise
// parks. Waiters are served in arrival order, as in the runtime.

import (
	"go/types"

	"golang.org/x/tools/go/ssa"
)

// chanWait is one parked operation: a plain send/receive or a whole select.
type chanWait struct {
	fired      bool
	idx        int // select case that completed
	v          Value
	ok         bool
	sendClosed bool // a parked send woken by close: panics
}

type chanWaiter struct {
	w    *chanWait
	idx  int
	send bool
	v    Value
}

type ChanV struct {
	id     int
	cap    int
	buf    []Value
	closed bool
	recvq  []*chanWaiter
	sendq  []*chanWaiter
	elem   types.Type
	label  string
}

func (ex *Exec) newChan(capacity int, elem types.Type) *ChanV {
	ex.mapN++
	return &ChanV{id: ex.mapN, cap: capacity, elem: elem}
}

func firstWaiting(q *[]*chanWaiter, pop bool) *chanWaiter {
	for len(*q) > 0 {
		w := (*q)[0]
		if w.w.fired {
			*q = (*q)[1:]
			continue
		}
		if pop {
			*q = (*q)[1:]
		}
		return w
	}
	return nil
}

func (c *ChanV) canRecv() bool {
	return len(c.buf) > 0 || c.closed || firstWaiting(&c.sendq, false) != nil
}

func (c *ChanV) canSend() bool {
	return c.closed || len(c.buf) < c.cap || firstWaiting(&c.recvq, false) != nil
}

// trySend completes a send without parking if that is possible.
func (ex *Exec) trySend(c *ChanV, v Value) bool {
	if c.closed {
		ex.goPanicStr("send on closed channel")
	}
	if r := firstWaiting(&c.recvq, true); r != nil {
		r.w.fired, r.w.idx, r.w.v, r.w.ok = true, r.idx, v, true
		return true
	}
	if len(c.buf) < c.cap {
		c.buf = append(c.buf, v)
		return true
	}
	return false
}

// tryRecv completes a receive without parking if that is possible.
func (ex *Exec) tryRecv(c *ChanV) (Value, bool, bool) {
	if len(c.buf) > 0 {
		v := c.buf[0]
		c.buf = c.buf[1:]
		if s := firstWaiting(&c.sendq, true); s != nil {
			c.buf = append(c.buf, s.v)
			s.w.fired, s.w.idx = true, s.idx
		}
		return v, true, true
	}
	if s := firstWaiting(&c.sendq, true); s != nil {
		s.w.fired, s.w.idx = true, s.idx
		return s.v, true, true
	}
	if c.closed {
		return ex.zeroValue(c.elem), false, true
	}
	return nil, false, false
}

func (ex *Exec) chanSend(cv, v Value) {
	c := cv.(*ChanV)
	ex.schedPoint("send")
	if c == nil {
		ex.blockUntil(func() bool { return false }, "send on nil chan")
	}
	if ex.trySend(c, v) {
		return
	}
	w := &chanWait{}
	c.sendq = append(c.sendq, &chanWaiter{w: w, send: true, v: v})
	ex.blockUntil(func() bool { return w.fired }, "chan send")
	if w.sendClosed {
		ex.goPanicStr("send on closed channel")
	}
}

func (ex *Exec) chanRecv(cv Value, commaOk bool) Value {
	c := cv.(*ChanV)
	ex.schedPoint("recv")
	if c == nil {
		ex.blockUntil(func() bool { return false }, "recv on nil chan")
	}
	v, ok, done := ex.tryRecv(c)
	if !done {
		w := &chanWait{}
		c.recvq = append(c.recvq, &chanWaiter{w: w})
		ex.blockUntil(func() bool { return w.fired }, "chan recv")
		v, ok = w.v, w.ok
	}
	if commaOk {
		return TupleV{v, ex.tt.Bool(ok)}
	}
	return v
}

func (ex *Exec) chanClose(cv Value) {
	c := cv.(*ChanV)
	if c == nil {
		ex.goPanicStr("close of nil channel")
	}
	if c.closed {
		ex.goPanicStr("close of closed channel")
	}
	c.closed = true
	for {
		r := firstWaiting(&c.recvq, true)
		if r == nil {
			break
		}
		r.w.fired, r.w.idx, r.w.v, r.w.ok = true, r.idx, ex.zeroValue(c.elem), false
	}
	for {
		s := firstWaiting(&c.sendq, true)
		if s == nil {
			break
		}
		s.w.fired, s.w.idx, s.w.sendClosed = true, s.idx, true
	}
	ex.schedPoint("close")
}

// chanPost is a non-blocking send used by timers: delivered to a parked
// receiver or the buffer, dropped otherwise.
func (ex *Exec) chanPost(c *ChanV, v Value) {
	if c.closed {
		return
	}
	ex.trySend(c, v)
}

func (ex *Exec) goPanicStr(msg string) {
	ex.runtimePanic(msg)
}

func (ex *Exec) doSelect(fr *frame, in *ssa.Select) Value {
	type sc struct {
		c    *ChanV
		send bool
		v    Value
	}
	states := make([]sc, len(in.States))
	for i, st := range in.States {
		c, _ := ex.get(fr, st.Chan).(*ChanV)
		states[i] = sc{c: c, send: st.Dir == types.SendOnly}
		if states[i].send {
			states[i].v = ex.get(fr, st.Send)
		}
	}
	ex.schedPoint("select")
	var rs []int
	for i, s := range states {
		if s.c == nil {
			continue
		}
		if s.send && s.c.canSend() || !s.send && s.c.canRecv() {
			rs = append(rs, i)
		}
	}
	if len(rs) > 0 {
		k := 0
		if len(rs) > 1 {
			k = ex.choose(len(rs), "select")
		}
		idx := rs[k]
		s := states[idx]
		if s.send {
			if !ex.trySend(s.c, s.v) {
				panic("select: ready send did not complete")
			}
			return ex.selectResult(in, idx, nil, false)
		}
		v, ok, done := ex.tryRecv(s.c)
		if !done {
			panic("select: ready receive did not complete")
		}
		return ex.selectResult(in, idx, v, ok)
	}
	if !in.Blocking {
		return ex.selectResult(in, -1, nil, false)
	}
	w := &chanWait{}
	for i, s := range states {
		if s.c == nil {
			continue
		}
		if s.send {
			s.c.sendq = append(s.c.sendq, &chanWaiter{w: w, idx: i, send: true, v: s.v})
		} else {
			s.c.recvq = append(s.c.recvq, &chanWaiter{w: w, idx: i})
		}
	}
	ex.blockUntil(func() bool { return w.fired }, "select")
	// withdraw from the other channels
	for _, s := range states {
		if s.c == nil {
			continue
		}
		q := &s.c.recvq
		if s.send {
			q = &s.c.sendq
		}
		keep := (*q)[:0:0]
		for _, x := range *q {
			if x.w != w {
				keep = append(keep, x)
			}
		}
		*q = keep
	}
	if w.sendClosed {
		ex.goPanicStr("send on closed channel")
	}
	if states[w.idx].send {
		return ex.selectResult(in, w.idx, nil, false)
	}
	return ex.selectResult(in, w.idx, w.v, w.ok)
}

func (ex *Exec) selectResult(in *ssa.Select, idx int, v Value, ok bool) Value {
	tv := TupleV{ex.intc(int64(idx)), ex.tt.Bool(ok)}
	for i, st := range in.States {
		if st.Dir == types.RecvOnly {
			if i == idx {
				tv = append(tv, v)
			} else {
				tv = append(tv, ex.zeroValue(st.Chan.Type().Underlying().(*types.Chan).Elem()))
			}
		}
	}
	return tv
}
