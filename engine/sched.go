package main

// Threads (goroutines), channels, select, virtual time.
//
// Every symbolic goroutine runs in its own real goroutine but only the holder
// of the baton executes; all interleaving decisions are explicit choices in
// the decision trace.

import (
	"fmt"
	"runtime/debug"
	"sync"

	"golang.org/x/tools/go/ssa"
)

type Thread struct {
	id      int
	frames  []*frame
	resume  chan struct{}
	done    bool
	started bool
	blocked func() bool
	what    string
	isMain  bool
	name    string

	afterIdx int
}

type threadKill struct{}

type vtimer struct {
	when   *Term
	fire   func()
	active bool
	period *Term // ticker
	id     int
}

type schedState struct {
	wg       sync.WaitGroup
	aborting bool
	abortEnd *pathEnd
}

func (ex *Exec) newThread(name string) *Thread {
	t := &Thread{id: len(ex.threads), resume: make(chan struct{}, 1), name: name}
	ex.threads = append(ex.threads, t)
	return t
}

func (ex *Exec) runnable(t *Thread) bool {
	if t.done {
		return false
	}
	if t.blocked == nil {
		return true
	}
	return t.blocked()
}

func (ex *Exec) runnableOthers() []*Thread {
	var out []*Thread
	for _, t := range ex.threads {
		if t != ex.cur && ex.runnable(t) {
			out = append(out, t)
		}
	}
	return out
}

// switchTo hands the baton to t and parks the current thread.
func (ex *Exec) switchTo(t *Thread) {
	me := ex.cur
	if t == me {
		return
	}
	ex.cur = t
	ex.schedLog = append(ex.schedLog, fmt.Sprintf("T%d->T%d", me.id, t.id))
	t.resume <- struct{}{}
	ex.park(me)
}

func (ex *Exec) park(me *Thread) {
	<-me.resume
	if ex.sch.aborting {
		if me.isMain {
			panic(ex.sch.abortEnd)
		}
		panic(threadKill{})
	}
}

// schedPoint is called before a visible synchronisation operation. It may
// pre-empt the current thread (bounded).
func (ex *Exec) schedPoint(what string) {
	if len(ex.threads) <= 1 {
		return
	}
	if ex.preempt >= ex.preemptBound {
		return
	}
	others := ex.runnableOthers()
	if len(others) == 0 {
		return
	}
	k := ex.choose(len(others)+1, "sched@"+what)
	if k == 0 {
		return
	}
	ex.preempt++
	ex.switchTo(others[k-1])
}

// blockUntil parks the current thread until cond holds.
func (ex *Exec) blockUntil(cond func() bool, what string) {
	me := ex.cur
	for !cond() {
		me.blocked = cond
		me.what = what
		next := ex.pickNext()
		if next == me {
			continue
		}
		ex.switchTo(next)
	}
	me.blocked = nil
	me.what = ""
}

// pickNext chooses the next thread to run when the current one cannot
// continue (blocked or finished). Advances virtual time if nobody is runnable.
func (ex *Exec) pickNext() *Thread {
	for {
		var rs []*Thread
		for _, t := range ex.threads {
			if ex.runnable(t) {
				rs = append(rs, t)
			}
		}
		if len(rs) > 0 {
			k := 0
			if len(rs) > 1 && ex.schedAll {
				// order of threads that become runnable together: explored only on
				// request (sched=all); otherwise the lowest thread id runs first and
				// the pre-emption bound supplies the other interleavings at sync points
				k = ex.choose(len(rs), "next")
			}
			return rs[k]
		}
		if ex.autoTime && ex.fireEarliestTimer() {
			continue
		}
		// deadlock
		var desc string
		for _, t := range ex.threads {
			if !t.done {
				desc += fmt.Sprintf("T%d(%s) blocked on %s; ", t.id, t.name, t.what)
			}
		}
		ex.end("deadlock", desc)
	}
}

func (ex *Exec) doGo(fr *frame, in *ssa.Go) {
	c := &in.Call
	var args []Value
	var fn *ssa.Function
	var bindings []Value
	if c.IsInvoke() {
		recv := ex.get(fr, c.Value).(IfaceV)
		if recv.typ == nil {
			ex.runtimePanic("go of method on nil interface")
		}
		fn = ex.eng.lookupMethod(recv.typ, c.Method)
		args = append(args, recv.val)
	} else {
		switch f := c.Value.(type) {
		case *ssa.Function:
			fn = f
		default:
			fv, ok := ex.get(fr, c.Value).(*FuncV)
			if !ok || fv == nil {
				ex.runtimePanic("go of nil func value")
			}
			if fv.builtin != nil {
				ex.unsupported("go builtin")
			}
			fn = fv.fn
			bindings = fv.bindings
		}
	}
	for _, a := range c.Args {
		args = append(args, ex.get(fr, a))
	}
	ex.spawn(fn, args, bindings)
}

func (ex *Exec) spawn(fn *ssa.Function, args, bindings []Value) *Thread {
	if len(ex.threads) >= ex.eng.maxThreads {
		ex.end("unsupported", fmt.Sprintf("more than %d goroutines", ex.eng.maxThreads))
	}
	t := ex.newThread(fn.String())
	ex.sch.wg.Add(1)
	go func() {
		defer ex.sch.wg.Done()
		<-t.resume
		if ex.sch.aborting {
			return
		}
		t.started = true
		finished := false
		defer func() {
			if finished {
				return
			}
			r := recover()
			switch r := r.(type) {
			case threadKill:
				return
			case *pathEnd:
				ex.abortFrom(t, r)
			case *goPanic:
				ex.uncaughtPanic(r)
				ex.abortFrom(t, &pathEnd{kind: "stop", msg: "uncaught panic in goroutine"})
			case *enginePanic:
				ex.abortFrom(t, &pathEnd{kind: "engine", msg: r.String()})
			default:
				ex.abortFrom(t, &pathEnd{kind: "engine", msg: fmt.Sprintf("%v\n%s", r, debug.Stack())})
			}
		}()
		ex.callFunction(fn, args, bindings)
		if t.afterIdx > 0 {
			ex.afterHooks[t.afterIdx-1]()
		}
		t.done = true
		t.frames = nil
		// hand over
		next := ex.pickNext()
		finished = true
		ex.cur = next
		ex.schedLog = append(ex.schedLog, fmt.Sprintf("T%d exit->T%d", t.id, next.id))
		next.resume <- struct{}{}
	}()
	ex.schedPoint("go")
	return t
}

// abortFrom ends the whole path from a non-main thread.
func (ex *Exec) abortFrom(t *Thread, pe *pathEnd) {
	ex.sch.abortEnd = pe
	ex.sch.aborting = true
	main := ex.threads[0]
	main.resume <- struct{}{}
}

// killThreads releases every parked goroutine of the finished path.
func (ex *Exec) killThreads() {
	ex.sch.aborting = true
	for _, t := range ex.threads[1:] {
		if !t.done {
			select {
			case t.resume <- struct{}{}:
			default:
			}
		}
	}
	ex.sch.wg.Wait()
	ex.sch.aborting = false
	ex.sch.abortEnd = nil
}

func (ex *Exec) uncaughtPanic(gp *goPanic) {
	msg := ex.panicMessage(gp)
	res, m := ex.modelNow()
	if res == Unsat {
		return
	}
	ex.recordViolation("panic", msg, gp.stack, m)
}

func (ex *Exec) panicMessage(gp *goPanic) string {
	if gp.rt != "" {
		return "runtime error: " + gp.rt
	}
	if iv, ok := gp.val.(IfaceV); ok {
		if s, ok := iv.val.(*StrV); ok && s.conc {
			return "panic: " + s.s
		}
		if iv.typ != nil {
			// error values: try Error() result if concrete
			return "panic: value of type " + iv.typ.String()
		}
	}
	return "panic"
}

// ---------- virtual time ----------

func (ex *Exec) now() *Term {
	if ex.clock == nil {
		ex.clock = ex.mkInt(1_000_000_000_000, tInt64) // arbitrary epoch offset (1000 s)
	}
	return ex.clock
}

func (ex *Exec) addTimer(d *Term, fire func(), period *Term) *vtimer {
	t := &vtimer{when: ex.intArithNoWrap("+", ex.now(), d), fire: fire, active: true, period: period, id: len(ex.timers)}
	ex.timers = append(ex.timers, t)
	return t
}

func (ex *Exec) intArithNoWrap(op string, a, b *Term) *Term {
	if ex.intMode {
		return ex.tt.IntBin(op, a, b)
	}
	if op == "+" {
		return ex.tt.BVBin("bvadd", a, b)
	}
	return ex.tt.BVBin("bvsub", a, b)
}

// fireEarliestTimer advances the clock to the earliest active timer and fires it.
func (ex *Exec) fireEarliestTimer() bool {
	var best *vtimer
	for _, t := range ex.timers {
		if !t.active {
			continue
		}
		if best == nil || ex.branch(ex.cmpInt("<", t.when, best.when, true)) {
			best = t
		}
	}
	if best == nil {
		return false
	}
	if ex.branch(ex.cmpInt("<", ex.now(), best.when, true)) {
		ex.clock = best.when
	}
	ex.fireTimer(best)
	return true
}

func (ex *Exec) fireTimer(t *vtimer) {
	if t.period != nil {
		t.when = ex.intArithNoWrap("+", t.when, t.period)
	} else {
		t.active = false
	}
	t.fire()
}

// advanceTime moves the clock forward by d, firing due timers in order and
// letting other threads run after each.
func (ex *Exec) advanceTime(d *Term) {
	target := ex.intArithNoWrap("+", ex.now(), d)
	for {
		var best *vtimer
		for _, t := range ex.timers {
			if !t.active {
				continue
			}
			if !ex.branch(ex.cmpInt("<=", t.when, target, true)) {
				continue
			}
			if best == nil || ex.branch(ex.cmpInt("<", t.when, best.when, true)) {
				best = t
			}
		}
		if best == nil {
			break
		}
		if ex.branch(ex.cmpInt("<", ex.now(), best.when, true)) {
			ex.clock = best.when
		}
		ex.fireTimer(best)
		ex.quiesce()
	}
	ex.clock = target
}

// quiesce lets all other threads run until none is runnable (no time advance).
func (ex *Exec) quiesce() int {
	me := ex.cur
	save := ex.autoTime
	ex.autoTime = false
	ex.blockUntil(func() bool {
		for _, t := range ex.threads {
			if t != me && ex.runnable(t) {
				return false
			}
		}
		return true
	}, "quiesce")
	ex.autoTime = save
	alive := 0
	for _, t := range ex.threads {
		if t != me && !t.done {
			alive++
		}
	}
	return alive
}
