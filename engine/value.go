package main

import (
	"fmt"
	"go/types"
	"strings"

	"golang.org/x/tools/go/ssa"
)

// Value is one of:
//   *Term        bool / integer / float
//   *StrV        string
//   SliceV       slice header
//   PtrV         pointer (obj==nil: nil)
//   *StructV     struct value (immutable)
//   *ArrayV      array value (immutable)
//   IfaceV       interface value (typ==nil: nil interface)
//   *FuncV       function / closure / bound method (nil *FuncV: nil func)
//   *MapV        map reference (nil: nil map)
//   *ChanV       channel reference (nil: nil chan)
//   TupleV       multiple results
//   *IterV       range iterator
//   OpaqueV      value of a type the engine does not look into (models only)
type Value interface{}

type StrV struct {
	bs   []*Term // bytes (BV8 or Int consts/terms)
	conc bool    // all constant
	s    string  // valid if conc
	// opaque: symbolic length, contents in an SMT array
	opaque bool
	n      *Term
	arr    *Term
	// hex.EncodeToString of symbolic bytes, kept symbolic so that DecodeString inverts it for free
	hexSrc []*Term
}

type Object struct {
	id    int
	typ   types.Type // element type for array-like, else cell type
	isArr bool
	val   Value   // !isArr
	elems []Value // isArr, dense
	// symbolic-size variants
	symN   *Term           // non-nil: symbolic number of elements
	sparse map[int64]Value // symN != nil && arrT == nil : elements at concrete indices
	arrT   *Term           // symN != nil: opaque bytes in an SMT array
	zero   func() Value
	label  string
	global *ssa.Global
}

type pathElem struct {
	field int   // struct field index, or -1
	idx   int64 // array index if field==-1 and sym==nil
	sym   *Term // symbolic array index
}

type PtrV struct {
	obj  *Object
	path []pathElem
	// array view: a *[viewLen]T aliasing elements [base, base+viewLen) of an
	// array-like object (result of a slice-to-array-pointer conversion)
	base    int64
	viewLen int
	// pointer to a function-level thing that is not memory (e.g. &sync.Mutex inside struct is normal memory)
}

type SliceV struct {
	arr           *Object
	off, len, cap *Term
}

type StructV struct{ f []Value }
type ArrayV struct{ e []Value }

type IfaceV struct {
	typ types.Type
	val Value
}

type FuncV struct {
	fn       *ssa.Function
	bindings []Value
	builtin  *ssa.Builtin
	// bound method value of interface (rare)
	recv   Value
	hasRcv bool
}

type MapV struct {
	id   int
	ents []*mapEnt
	kt   types.Type
	vt   types.Type
}

type TupleV []Value

type IterV struct {
	m    *MapV
	ents []*mapEnt
	pos  int
	str  *StrV
	spos int
}

type OpaqueV struct {
	what string
	data interface{}
}

func (p PtrV) isNil() bool { return p.obj == nil }

func (p PtrV) String() string {
	if p.obj == nil {
		return "nil"
	}
	var sb strings.Builder
	fmt.Fprintf(&sb, "&obj%d", p.obj.id)
	for _, e := range p.path {
		if e.field >= 0 {
			fmt.Fprintf(&sb, ".f%d", e.field)
		} else if e.sym != nil {
			sb.WriteString("[sym]")
		} else {
			fmt.Fprintf(&sb, "[%d]", e.idx)
		}
	}
	return sb.String()
}

func extendPath(p []pathElem, e pathElem) []pathElem {
	np := make([]pathElem, len(p)+1)
	copy(np, p)
	np[len(p)] = e
	return np
}

func samePath(a, b []pathElem) bool {
	if len(a) != len(b) {
		return false
	}
	for i := range a {
		if a[i].field != b[i].field || a[i].idx != b[i].idx || a[i].sym != b[i].sym {
			return false
		}
	}
	return true
}

func concStr(s string) *StrV { return &StrV{conc: true, s: s} }

func (s *StrV) Len() int {
	if s.conc {
		return len(s.s)
	}
	if s.bs == nil && s.hexSrc != nil {
		return 2 * len(s.hexSrc)
	}
	return len(s.bs)
}
