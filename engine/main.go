package main

import (
	"bufio"
	"encoding/json"
	"flag"
	"fmt"
	"os"
	"os/exec"
	"path/filepath"
	"regexp"
	"runtime/pprof"
	"sort"
	"strconv"
	"strings"
	"time"
)

type harnessFile struct {
	src     string // path under /verif/harness
	pkgDir  string // relative to repo
	pkgName string
	virt    string // overlay path
	data    []byte
}

var pkgDirective = regexp.MustCompile(`(?m)^//verif:pkg\s+(\S+)`)
var pkgClause = regexp.MustCompile(`(?m)^package\s+(\w+)`)

func readHarnessFiles(verifDir, repo, prop string) ([]*harnessFile, error) {
	dir := filepath.Join(verifDir, "harness", prop)
	ents, err := os.ReadDir(dir)
	if err != nil {
		return nil, err
	}
	var out []*harnessFile
	type src struct{ path, name string }
	var srcs []src
	for _, e := range ents {
		if strings.HasSuffix(e.Name(), ".go") {
			srcs = append(srcs, src{filepath.Join(dir, e.Name()), e.Name()})
		}
	}
	// INCLUDE lists shared files (models, fakes), one path per line relative to harness/
	if inc, err := os.ReadFile(filepath.Join(dir, "INCLUDE")); err == nil {
		for _, l := range strings.Split(string(inc), "\n") {
			l = strings.TrimSpace(l)
			if l == "" || strings.HasPrefix(l, "#") {
				continue
			}
			srcs = append(srcs, src{filepath.Join(verifDir, "harness", l), "inc_" + strings.ReplaceAll(l, "/", "_")})
		}
	}
	for _, e := range srcs {
		b, err := os.ReadFile(e.path)
		if err != nil {
			return nil, err
		}
		m := pkgDirective.FindSubmatch(b)
		pm := pkgClause.FindSubmatch(b)
		if m == nil || pm == nil {
			return nil, fmt.Errorf("%s: missing //verif:pkg or package clause", e.name)
		}
		hf := &harnessFile{src: e.path, pkgDir: string(m[1]), pkgName: string(pm[1]), data: b}
		hf.virt = filepath.Join(repo, hf.pkgDir, "zz_verif_"+prop+"_"+e.name)
		out = append(out, hf)
	}
	return out, nil
}

func buildOverlay(verifDir, repo string, files []*harnessFile) (map[string][]byte, []string, error) {
	tmpl, err := os.ReadFile(filepath.Join(verifDir, "harness", "api", "zz_verif_api.go.tmpl"))
	if err != nil {
		return nil, nil, err
	}
	ov := map[string][]byte{}
	dirs := map[string]string{}
	for _, f := range files {
		ov[f.virt] = f.data
		dirs[f.pkgDir] = f.pkgName
	}
	var dl []string
	for d, name := range dirs {
		ov[filepath.Join(repo, d, "zz_verif_api.go")] = []byte(strings.Replace(string(tmpl), "PKGNAME", name, 1))
		dl = append(dl, d)
	}
	sort.Strings(dl)
	return ov, dl, nil
}

type knownFinding struct {
	Prop, Harness, Match, Text string
}

func readKnown(verifDir string) []knownFinding {
	f, err := os.Open(filepath.Join(verifDir, "KNOWN_FINDINGS.txt"))
	if err != nil {
		return nil
	}
	defer f.Close()
	var out []knownFinding
	sc := bufio.NewScanner(f)
	for sc.Scan() {
		l := strings.TrimSpace(sc.Text())
		if !strings.HasPrefix(l, "known:") {
			continue
		}
		kf := knownFinding{Text: l}
		rest := strings.TrimSpace(strings.TrimPrefix(l, "known:"))
		// property=C05 harness=ZZ_x match="..." -- free text
		for _, fld := range splitFields(rest) {
			if strings.HasPrefix(fld, "property=") {
				kf.Prop = strings.TrimPrefix(fld, "property=")
			} else if strings.HasPrefix(fld, "harness=") {
				kf.Harness = strings.TrimPrefix(fld, "harness=")
			} else if strings.HasPrefix(fld, "match=") {
				kf.Match = strings.Trim(strings.TrimPrefix(fld, "match="), "\"")
			}
		}
		out = append(out, kf)
	}
	return out
}

// firstErrorFor extracts the first load error reported for the given file.
func firstErrorFor(errs, file string) string {
	for _, l := range strings.Split(errs, "\n") {
		if i := strings.Index(l, file+":"); i >= 0 {
			return strings.TrimSpace(l[i+len(file)+1:])
		}
	}
	return "?"
}

func splitFields(s string) []string {
	var out []string
	var cur strings.Builder
	inq := false
	for _, r := range s {
		switch {
		case r == '"':
			inq = !inq
			cur.WriteRune(r)
		case r == ' ' && !inq:
			if cur.Len() > 0 {
				out = append(out, cur.String())
				cur.Reset()
			}
		default:
			cur.WriteRune(r)
		}
	}
	if cur.Len() > 0 {
		out = append(out, cur.String())
	}
	return out
}

type evidence struct {
	PropertyID  string                 `json:"property_id"`
	Tier        string                 `json:"tier"`
	Seed        int                    `json:"seed"`
	Level       string                 `json:"level"`
	Coverage    map[string]interface{} `json:"coverage"`
	Assumptions []string               `json:"assumptions"`
	WallS       float64                `json:"wall_s"`
	Violations  int                    `json:"violations"`
}

func main() {
	var (
		prop      = flag.String("prop", "", "property id (C01..C20)")
		tier      = flag.String("tier", envOr("VERIF_TIER", "quick"), "quick|thorough")
		verifDir  = flag.String("verif", "/verif", "verif dir")
		repo      = flag.String("repo", "/repo", "repository")
		only      = flag.String("only", "", "run only harnesses whose name contains this")
		workers   = flag.Int("workers", 0, "workers per harness (0 = auto)")
		solver    = flag.String("solver", "z3", "z3 | z3-new | cvc5")
		timeoutMs = flag.Int("timeout", 3000, "incremental solver time slice per query (ms)")
		oneShotMs = flag.Int("oneshot", 60000, "time limit of the from-scratch fallback query (ms)")
		verbose   = flag.Bool("v", false, "verbose")
		noReplay  = flag.Bool("noreplay", false, "skip native replay (violations are then reported UNCONFIRMED)")
		budgetS   = flag.Int("budget", 0, "time budget per harness in seconds (0: tier default)")
		replayF   = flag.String("replay", "", "replay a counterexample file natively and exit")
		noEvid    = flag.Bool("noevidence", false, "do not write the evidence file")
	)
	cpuprof := os.Getenv("GOSMT_CPUPROF")
	flag.Parse()
	if cpuprof != "" {
		f, _ := os.Create(cpuprof)
		pprof.StartCPUProfile(f)
		defer pprof.StopCPUProfile()
	}
	os.Setenv("PATH", "/opt/veriftools/go1.26.8/bin:"+os.Getenv("PATH"))
	seed, _ := strconv.Atoi(envOr("VERIF_SEED", "0"))
	t0 := time.Now()
	if *replayF != "" {
		os.Exit(replayMain(*replayF, *verifDir, *repo))
	}
	if *prop == "" {
		fmt.Fprintln(os.Stderr, "usage: gosmt -prop Cxx [-tier quick|thorough]")
		os.Exit(2)
	}
	scratch, err := os.MkdirTemp("", "gosmt-"+*prop+"-")
	if err != nil {
		fatal(err)
	}
	defer os.RemoveAll(scratch)
	gowork, err := scratchWorkspace(*repo, scratch)
	if err != nil {
		fatal(err)
	}
	files, err := readHarnessFiles(*verifDir, *repo, *prop)
	if err != nil {
		fatal(err)
	}
	ov, dirs, err := buildOverlay(*verifDir, *repo, files)
	if err != nil {
		fatal(err)
	}
	ev := &evidence{PropertyID: *prop, Tier: *tier, Seed: seed, Level: "model_checking", Coverage: map[string]interface{}{}}
	eng, err := LoadEngine(*repo, dirs, ov, gowork)
	// A harness file that no longer type-checks against the current tree (e.g. a
	// field it inspects was renamed) is dropped and the remaining files are
	// loaded again, so that one white-box harness does not take the black-box
	// ones of the same property with it. Dropped files make the run incomplete.
	var dropped []string
	for tries := 0; err != nil && tries < 6; tries++ {
		bad := map[string]bool{}
		for _, f := range files {
			if strings.Contains(err.Error(), f.virt+":") {
				bad[f.virt] = true
			}
		}
		if len(bad) == 0 || len(bad) == len(files) {
			break
		}
		var keep []*harnessFile
		for _, f := range files {
			if bad[f.virt] {
				msg := firstErrorFor(err.Error(), f.virt)
				fmt.Printf("DROPPED property=%s file=%s: no longer type-checks against the current tree: %s\n", *prop, filepath.Base(f.src), msg)
				dropped = append(dropped, filepath.Base(f.src)+": "+msg)
			} else {
				keep = append(keep, f)
			}
		}
		files = keep
		ov, dirs, err = buildOverlay(*verifDir, *repo, files)
		if err != nil {
			fatal(err)
		}
		eng, err = LoadEngine(*repo, dirs, ov, gowork)
	}
	if len(dropped) > 0 {
		ev.Coverage["dropped_harness_files"] = dropped
	}
	if err != nil {
		// harness does not type-check against this tree (or the tree does not build): no verdict
		fmt.Printf("INCONCLUSIVE property=%s: cannot load/type-check harnesses against the current tree: %v\n", *prop, err)
		ev.Coverage["explanation"] = "load failed: " + err.Error()
		ev.Coverage["evaluations"] = 1
		ev.Coverage["distinct_nontrivial"] = 0
		ev.WallS = time.Since(t0).Seconds()
		if !*noEvid {
			writeEvidence(*verifDir, ev)
		}
		os.Exit(0)
	}
	eng.solverName = *solver
	eng.timeoutMs = *timeoutMs
	eng.oneShotMs = *oneShotMs
	eng.seed = seed
	eng.verbose = *verbose
	eng.tier = *tier
	replayTier = *tier
	specs := eng.FindHarnesses(*prop)
	var sel []*HarnessSpec
	for _, s := range specs {
		if *only != "" && !strings.Contains(s.Name, *only) {
			continue
		}
		if s.Tier == "thorough" && *tier != "thorough" {
			continue
		}
		if s.Tier == "debug" && *only == "" {
			continue
		}
		if s.Tier == "quick" && *tier != "quick" {
			continue
		}
		sel = append(sel, s)
	}
	if len(sel) == 0 {
		fmt.Printf("INCONCLUSIVE property=%s: no harness selected\n", *prop)
		os.Exit(0)
	}
	nw := *workers
	if nw == 0 {
		// two harnesses at a time, each with most of the machine: a harness with
		// few, slow paths does not idle the cores and a heavy one is not starved
		nw = 12
		if len(sel) == 1 {
			nw = 16
		}
	}
	budget := time.Duration(*budgetS) * time.Second
	if budget == 0 {
		if *tier == "thorough" {
			budget = 15 * time.Minute
		} else {
			budget = 6 * time.Minute
		}
	}
	// run harnesses concurrently (bounded); the budget is per harness and starts when it starts
	results := make([]*HarnessRun, len(sel))
	sem := make(chan struct{}, 2)
	done := make(chan int, len(sel))
	for i, s := range sel {
		go func(i int, s *HarnessSpec) {
			sem <- struct{}{}
			results[i] = eng.RunHarness(s, nw, time.Now().Add(budget))
			<-sem
			done <- i
		}(i, s)
	}
	for range sel {
		<-done
	}
	known := readKnown(*verifDir)
	exit := report(eng, *prop, *tier, seed, sel, results, ev, known, files, *verifDir, *repo, gowork, *noReplay, t0, *verbose)
	ev.WallS = time.Since(t0).Seconds()
	if !*noEvid {
		writeEvidence(*verifDir, ev)
	}
	if profOn {
		type kv struct {
			k string
			v int
		}
		var l []kv
		for k, v := range profCnt {
			l = append(l, kv{k, v})
		}
		sort.Slice(l, func(i, j int) bool { return l[i].v > l[j].v })
		for i, e := range l {
			if i > 25 {
				break
			}
			fmt.Printf("PROF %7d %s\n", e.v, e.k)
		}
	}
	if cpuprof != "" {
		pprof.StopCPUProfile()
	}
	os.Exit(exit)
}

func maxInt(a, b int) int {
	if a > b {
		return a
	}
	return b
}

func envOr(k, d string) string {
	if v := os.Getenv(k); v != "" {
		return v
	}
	return d
}

func fatal(err error) {
	fmt.Fprintln(os.Stderr, "gosmt:", err)
	os.Exit(2)
}

func writeEvidence(verifDir string, ev *evidence) {
	os.MkdirAll(filepath.Join(verifDir, "evidence"), 0o755)
	b, _ := json.MarshalIndent(ev, "", " ")
	os.WriteFile(filepath.Join(verifDir, "evidence", ev.PropertyID+".json"), b, 0o644)
}

func shortFn(s string) string {
	s = strings.ReplaceAll(s, "github.com/apernet/hysteria/", "")
	return s
}

func report(eng *Engine, prop, tier string, seed int, specs []*HarnessSpec, results []*HarnessRun, ev *evidence,
	known []knownFinding, files []*harnessFile, verifDir, repo, gowork string, noReplay bool, t0 time.Time, verbose bool) int {
	exit := 0
	totalPaths, totalSteps := 0, int64(0)
	q := SolverStats{}
	var samples []interface{}
	funcs := map[string]bool{}
	stubs := map[string]bool{}
	assumes := map[string]bool{}
	var harnessInfo []map[string]interface{}
	complete := true
	confirmed, unconfirmed, knownHits := 0, 0, 0
	validated := 0
	var notes []string
	for i, h := range results {
		s := specs[i]
		totalPaths += h.Paths
		totalSteps += h.Steps
		q.Sat += h.Solver.Sat
		q.Unsat += h.Solver.Unsat
		q.Unknown += h.Solver.Unknown
		q.Errors += h.Solver.Errors
		q.Queries += h.Solver.Queries
		q.Time += h.Solver.Time
		for f := range h.Funcs {
			if strings.Contains(f, "apernet/hysteria") && !strings.Contains(f, "ZZ_") && !strings.Contains(f, "verif") {
				funcs[shortFn(f)] = true
			}
		}
		for st := range h.Stubs {
			stubs[st] = true
		}
		for a := range h.Assumes {
			assumes[a] = true
		}
		for _, sm := range h.Samples {
			if len(samples) < 8 {
				samples = append(samples, map[string]interface{}{"harness": h.Name, "path_model": sm})
			}
		}
		hc := true
		// An undecided *feasibility* query keeps both branches (a superset of the
		// real paths is explored), which cannot hide a violation; only undecided
		// assertions, solver errors and cut explorations make a run incomplete.
		if len(h.Unsupported) > 0 || h.Truncated || h.UnwindFail > 0 || h.Solver.Errors > 0 || h.AssertsUnk > 0 {
			hc = false
		}
		// covers: every declared cover label must have been reached on some completed path
		missing := []string{}
		for _, c := range coverLabels(s, files) {
			if h.Covers[c] == 0 {
				missing = append(missing, c)
			}
		}
		if len(missing) > 0 {
			hc = false
		}
		info := map[string]interface{}{
			"harness": h.Name, "kind": h.Kind, "int_mode": h.IntMode, "paths": h.Paths, "ends": h.Ends,
			"asserts_checked": h.Asserts, "asserts_unsat": h.AssertsOK, "asserts_unknown": h.AssertsUnk,
			"violations_found": len(h.Violations), "covers_reached": h.Covers, "covers_missing": missing,
			"unwind": s.Unwind, "complete": hc, "solver_s": round2(h.Solver.Time.Seconds()),
			"queries": map[string]int{"sat": h.Solver.Sat, "unsat": h.Solver.Unsat, "unknown": h.Solver.Unknown, "errors": h.Solver.Errors},
		}
		if len(h.Unsupported) > 0 {
			info["unsupported"] = h.Unsupported
		}
		if len(h.Notes) > 0 {
			nn := h.Notes
			if len(nn) > 8 {
				nn = nn[:8]
			}
			info["notes"] = nn
		}
		if h.Truncated {
			info["truncated"] = true
		}
		harnessInfo = append(harnessInfo, info)
		if !hc {
			complete = false
			fmt.Printf("INCOMPLETE property=%s harness=%s unsupported=%d truncated=%v unwind_failures=%d unknown=%d missing_covers=%v\n",
				prop, h.Name, len(h.Unsupported), h.Truncated, h.UnwindFail, h.Solver.Unknown+h.AssertsUnk, missing)
			if verbose || true {
				grouped := map[string]int{}
				example := map[string]string{}
				for m, n := range h.Unsupported {
					k := firstLines(m, 1)
					grouped[k] += n
					example[k] = m
				}
				shown := 0
				for k, n := range grouped {
					if shown >= 6 {
						fmt.Printf("  ... %d more kinds of unsupported operations\n", len(grouped)-shown)
						break
					}
					shown++
					fmt.Printf("  unsupported x%d: %s\n", n, firstLines(example[k], 14))
				}
				seenN := map[string]bool{}
				for _, n := range h.Notes {
					if !seenN[n] {
						seenN[n] = true
						fmt.Printf("  note: %s\n", firstLines(n, 3))
					}
				}
				for st := range h.Stubs {
					if strings.HasPrefix(st, "init:") {
						fmt.Printf("  partial-init: %s\n", firstLines(st, 3))
					}
				}
			}
		}
		// violations: dedupe by (kind,msg)
		seen := map[string]bool{}
		for _, v := range h.Violations {
			key := v.Kind + "|" + v.Msg
			if seen[key] {
				continue
			}
			seen[key] = true
			rp := writeReplay(verifDir, prop, v)
			if h.Kind != "api" {
				fmt.Printf("INDUCTION-FAILED property=%s harness=%s %s: %s (replay=%s) -- inductive step only; claim reduced to the base-case depth\n", prop, h.Name, v.Kind, v.Msg, rp)
				notes = append(notes, "induction step failed: "+h.Name+": "+v.Msg)
				complete = false
				continue
			}
			status := "UNCONFIRMED"
			detail := ""
			if !noReplay {
				var ok bool
				var out string
				if s.Opts["replay"] == "interp" {
					ok, out = eng.ConfirmInterp(s, v)
				} else {
					ok, out = nativeReplay(rp, verifDir, repo, gowork, files, v)
					if !ok && strings.Contains(s.Opts["replay"], "sched") && hasSchedChoice(v) {
						ok2, out2 := eng.ConfirmSchedule(s, v)
						if ok2 {
							ok, out = true, out2+" (native: "+firstLines(out, 1)+")"
						} else {
							out = out + " | " + out2
						}
					}
				}
				detail = out
				if ok {
					status = "CONFIRMED"
				}
			}
			if status == "CONFIRMED" {
				validated++
				if kf := matchKnown(known, prop, h.Name, v); kf != nil {
					knownHits++
					fmt.Printf("KNOWN-FINDING: property=%s %s\n", prop, strings.TrimSpace(strings.TrimPrefix(kf.Text, "known:")))
					continue
				}
				confirmed++
				exit = 1
				fmt.Printf("VIOLATION property=%s replay=%s\n", prop, rp)
				fmt.Printf("  harness=%s kind=%s: %s\n  native: %s\n", h.Name, v.Kind, v.Msg, firstLines(detail, 6))
				if v.Stack != "" {
					fmt.Printf("  at: %s\n", firstLines(v.Stack, 6))
				}
			} else {
				unconfirmed++
				complete = false
				fmt.Printf("UNCONFIRMED property=%s harness=%s kind=%s: %s (replay=%s)\n  native: %s\n", prop, h.Name, v.Kind, v.Msg, rp, firstLines(detail, 8))
				if v.Stack != "" {
					fmt.Printf("  at: %s\n", firstLines(v.Stack, 8))
				}
			}
		}
	}
	var fl []string
	for f := range funcs {
		fl = append(fl, f)
	}
	sort.Strings(fl)
	var sl []string
	for s := range stubs {
		sl = append(sl, s)
	}
	sort.Strings(sl)
	if len(samples) == 0 {
		samples = append(samples, map[string]interface{}{"note": "no completed path produced a model"})
	}
	ev.Coverage["states"] = maxInt(totalPaths, 0)
	ev.Coverage["transitions"] = totalSteps
	ev.Coverage["traces_validated_against_impl"] = validated
	ev.Coverage["samples"] = samples
	ev.Coverage["harnesses"] = harnessInfo
	ev.Coverage["functions_encoded"] = fl
	ev.Coverage["stubs"] = sl
	ev.Coverage["queries"] = map[string]interface{}{"total": q.Queries, "sat": q.Sat, "unsat": q.Unsat, "unknown": q.Unknown, "errors": q.Errors}
	ev.Coverage["solver_s"] = round2(q.Time.Seconds())
	ev.Coverage["solver"] = eng.solverName
	ev.Coverage["ssa_load_s"] = round2(eng.loadTime.Seconds())
	ev.Coverage["complete"] = complete
	ev.Coverage["exhaustive"] = complete
	ev.Coverage["bounds"] = boundsOf(specs)
	ev.Coverage["confirmed_violations"] = confirmed
	ev.Coverage["known_findings_hit"] = knownHits
	ev.Coverage["unconfirmed_models"] = unconfirmed
	if len(notes) > 0 {
		ev.Coverage["notes"] = notes
	}
	ev.Violations = confirmed
	as := []string{
		"go/ssa (x/tools v0.50.0) and this engine's instruction semantics are faithful to the Go compiler",
		"solver " + eng.solverName + " answers are correct; any (error line or unknown is treated as inconclusive",
	}
	for a := range assumes {
		as = append(as, a)
	}
	for _, s := range sl {
		as = append(as, "stub/model: "+s)
	}
	ev.Assumptions = as
	verdict := "HOLDS"
	if exit != 0 {
		verdict = "VIOLATED"
	} else if !complete || ev.Coverage["dropped_harness_files"] != nil {
		verdict = "INCOMPLETE"
	}
	fmt.Printf("RESULT property=%s tier=%s verdict=%s harnesses=%d paths=%d instrs=%d queries=%d (sat %d unsat %d unknown %d) solver=%.1fs wall=%.1fs\n",
		prop, tier, verdict, len(specs), totalPaths, totalSteps, q.Queries, q.Sat, q.Unsat, q.Unknown, q.Time.Seconds(), time.Since(t0).Seconds())
	return exit
}

func round2(f float64) float64 { return float64(int(f*100)) / 100 }

func firstLines(s string, n int) string {
	ls := strings.Split(strings.TrimSpace(s), "\n")
	if len(ls) > n {
		ls = ls[:n]
	}
	return strings.Join(ls, "\n    ")
}

func boundsOf(specs []*HarnessSpec) map[string]interface{} {
	out := map[string]interface{}{}
	for _, s := range specs {
		m := map[string]interface{}{"unwind": s.Unwind, "preemption_bound": s.Preempt}
		for k, v := range s.Opts {
			m[k] = v
		}
		out[s.Name] = m
	}
	return out
}

var coverRe = regexp.MustCompile(`verifCover\("([^"]+)"\)`)

// coverLabels extracts the verifCover labels that textually occur in the
// harness function's file between its declaration and the next top-level func.
func coverLabels(s *HarnessSpec, files []*harnessFile) []string {
	for _, f := range files {
		if f.virt != s.File {
			continue
		}
		src := string(f.data)
		i := strings.Index(src, "func "+s.Name+"(")
		if i < 0 {
			return nil
		}
		rest := src[i+5:]
		if j := strings.Index(rest, "\nfunc "); j >= 0 {
			rest = rest[:j]
		}
		var out []string
		seen := map[string]bool{}
		for _, m := range coverRe.FindAllStringSubmatch(rest, -1) {
			if !seen[m[1]] {
				seen[m[1]] = true
				out = append(out, m[1])
			}
		}
		return out
	}
	return nil
}

func matchKnown(known []knownFinding, prop, harness string, v *Violation) *knownFinding {
	for i := range known {
		k := &known[i]
		if k.Prop != prop {
			continue
		}
		if k.Harness != "" && k.Harness != harness {
			continue
		}
		if k.Match != "" && !strings.Contains(v.Msg+"\n"+v.Stack, k.Match) {
			continue
		}
		return k
	}
	return nil
}

// ---------- replay files ----------

type replayFile struct {
	Property string       `json:"property"`
	Harness  string       `json:"harness"`
	Kind     string       `json:"kind"`
	Msg      string       `json:"msg"`
	Stack    string       `json:"stack,omitempty"`
	Draws    []replayDraw `json:"draws"`
	Sched    []string     `json:"schedule,omitempty"`
	Checked  bool         `json:"model_rechecked_against_encoding"`
}

type replayDraw struct {
	Name string `json:"name"`
	Kind string `json:"kind"`
	Val  string `json:"val"`
}

func writeReplay(verifDir, prop string, v *Violation) string {
	rf := replayFile{Property: prop, Harness: v.Harness, Kind: v.Kind, Msg: v.Msg, Stack: v.Stack, Sched: v.Sched, Checked: v.Checked}
	for _, d := range v.Draws {
		rd := replayDraw{Name: d.Name, Kind: d.Kind}
		switch d.Kind {
		case "int":
			if len(d.vars) == 1 {
				if c, ok := v.Model[d.vars[0].name]; ok {
					if c.sort.K == SInt {
						rd.Val = c.bi.String()
					} else if strings.Contains(d.Name, "#") && d.Bits > 0 {
						// signedness: stored as signed decimal of the width unless uint64 label
						if d.Unsigned {
							rd.Val = strconv.FormatUint(c.u, 10)
						} else {
							rd.Val = strconv.FormatInt(sext(c.u, c.sort.W), 10)
						}
					}
				} else {
					rd.Val = "0"
				}
			}
		default:
			rd.Val = drawString(d, v.Model)
		}
		rf.Draws = append(rf.Draws, rd)
	}
	dir := filepath.Join(verifDir, "replays")
	os.MkdirAll(dir, 0o755)
	b, _ := json.MarshalIndent(rf, "", " ")
	h := fnv(string(b))
	p := filepath.Join(dir, fmt.Sprintf("%s-%s-%08x.json", prop, v.Harness, h))
	os.WriteFile(p, b, 0o644)
	return p
}

func fnv(s string) uint32 {
	h := uint32(2166136261)
	for i := 0; i < len(s); i++ {
		h ^= uint32(s[i])
		h *= 16777619
	}
	return h
}

// nativeReplay compiles the harness into the real package (overlay) and runs
// it on the counterexample. Returns true if the violation reproduces.
func nativeReplay(replayPath, verifDir, repo, gowork string, files []*harnessFile, v *Violation) (bool, string) {
	var hf *harnessFile
	for _, f := range files {
		if strings.Contains(string(f.data), "func "+v.Harness+"(") {
			hf = f
		}
	}
	if hf == nil {
		return false, "harness file not found"
	}
	return runNativeMsg(replayPath, verifDir, repo, gowork, files, hf, v.Kind, v.Msg)
}

func runNative(replayPath, verifDir, repo, gowork string, files []*harnessFile, hf *harnessFile, kind string) (bool, string) {
	return runNativeMsg(replayPath, verifDir, repo, gowork, files, hf, kind, "")
}

// runNativeMsg: when wantMsg is given, an assertion failure only confirms the
// counterexample if it is the same assertion that failed symbolically.
func runNativeMsg(replayPath, verifDir, repo, gowork string, files []*harnessFile, hf *harnessFile, kind, wantMsg string) (bool, string) {
	scratch, err := os.MkdirTemp("", "gosmt-replay-")
	if err != nil {
		return false, err.Error()
	}
	defer os.RemoveAll(scratch)
	tmpl, _ := os.ReadFile(filepath.Join(verifDir, "harness", "api", "zz_verif_api.go.tmpl"))
	repl := map[string]string{}
	write := func(virt string, data []byte) {
		real := filepath.Join(scratch, fmt.Sprintf("f%d.go", len(repl)))
		os.WriteFile(real, data, 0o644)
		repl[virt] = real
	}
	// all harness files of this package (they may share helpers)
	var names []string
	fnRe := regexp.MustCompile(`(?m)^func (ZZ_\w+)\(\)`)
	for _, f := range files {
		if f.pkgDir != hf.pkgDir {
			continue
		}
		write(f.virt, f.data)
		for _, m := range fnRe.FindAllSubmatch(f.data, -1) {
			names = append(names, string(m[1]))
		}
	}
	write(filepath.Join(repo, hf.pkgDir, "zz_verif_api.go"), []byte(strings.Replace(string(tmpl), "PKGNAME", hf.pkgName, 1)))
	var sb strings.Builder
	// the replay runs inside a synctest bubble: virtual time (verifAdvance =
	// time.Sleep) and quiescence (verifQuiesce = synctest.Wait) behave as in the engine
	sb.WriteString("//go:build verif\n\npackage " + hf.pkgName + "\n\nimport (\n\t\"testing\"\n\t\"testing/synctest\"\n)\n\nfunc TestZZReplay(t *testing.T) {\n\tsynctest.Test(t, func(t *testing.T) {\n\tverifRunReplay(map[string]func(){\n")
	for _, n := range names {
		fmt.Fprintf(&sb, "\t\t%q: %s,\n", n, n)
	}
	sb.WriteString("\t})\n\t})\n}\n")
	write(filepath.Join(repo, hf.pkgDir, "zz_verif_replay_test.go"), []byte(sb.String()))
	ovb, _ := json.Marshal(map[string]interface{}{"Replace": repl})
	ovf := filepath.Join(scratch, "overlay.json")
	os.WriteFile(ovf, ovb, 0o644)
	cmd := exec.Command("go", "test", "-vet=off", "-count=1", "-tags", "verif", "-overlay", ovf, "-run", "^TestZZReplay$", "-v", "-timeout", "120s", ".")
	cmd.Dir = filepath.Join(repo, hf.pkgDir)
	cmd.Env = append(goEnv(gowork), "VERIF_REPLAY="+replayPath, "VERIF_TIER="+replayTier)
	out, _ := cmd.CombinedOutput()
	so := string(out)
	var line string
	for _, l := range strings.Split(so, "\n") {
		if strings.HasPrefix(l, "VERIF-REPLAY") {
			line = l
		}
	}
	if line == "" {
		// a crash that escaped (e.g. panic in another goroutine, fatal error)
		if strings.Contains(so, "panic:") || strings.Contains(so, "fatal error:") {
			// an assertion of a harness fake that failed on a goroutine the real code
			// started: the panic value names the assertion
			if i := strings.Index(so, "VERIF-ASSERT-FAILED: "); i >= 0 && kind == "assert" {
				rest := so[i+len("VERIF-ASSERT-FAILED: "):]
				if j := strings.Index(rest, " :VERIF-END"); j >= 0 {
					got := rest[:j]
					if wantMsg == "" || strings.Contains(got, wantMsg) {
						return true, "VERIF-REPLAY assert-failed (on a goroutine started by the code under test): " + got
					}
					return false, "assert-failed on another goroutine: " + got + "  [a different assertion than the one violated symbolically]"
				}
			}
			return kind == "panic" || kind == "deadlock", "process crashed: " + firstLines(tail(so, 15), 15)
		}
		return false, "no replay verdict; output: " + firstLines(tail(so, 15), 15)
	}
	switch {
	case strings.Contains(line, "assert-failed"):
		if wantMsg != "" && !strings.Contains(line, wantMsg) {
			return false, line + "  [a different assertion than the one violated symbolically]"
		}
		return kind == "assert", line
	case strings.Contains(line, "panicked"):
		return kind == "panic", line
	}
	return false, line
}

var replayTier = "quick"

func tail(s string, n int) string {
	ls := strings.Split(strings.TrimSpace(s), "\n")
	if len(ls) > n {
		ls = ls[len(ls)-n:]
	}
	return strings.Join(ls, "\n")
}

func replayMain(path, verifDir, repo string) int {
	b, err := os.ReadFile(path)
	if err != nil {
		fatal(err)
	}
	var rf replayFile
	if err := json.Unmarshal(b, &rf); err != nil {
		fatal(err)
	}
	scratch, _ := os.MkdirTemp("", "gosmt-rp-")
	defer os.RemoveAll(scratch)
	gowork, _ := scratchWorkspace(repo, scratch)
	files, err := readHarnessFiles(verifDir, repo, rf.Property)
	if err != nil {
		fatal(err)
	}
	var hf *harnessFile
	for _, f := range files {
		if strings.Contains(string(f.data), "func "+rf.Harness+"(") {
			hf = f
		}
	}
	if hf == nil {
		fatal(fmt.Errorf("harness %s not found", rf.Harness))
	}
	ok, out := runNative(path, verifDir, repo, gowork, files, hf, rf.Kind)
	fmt.Println(out)
	if ok {
		fmt.Printf("VIOLATION property=%s replay=%s\n", rf.Property, path)
		return 1
	}
	fmt.Println("not reproduced")
	return 0
}
