package main

// Path state, decisions and exploration bookkeeping.

import (
	"fmt"
	"go/types"
	"math/big"
	"os"
	"sort"
	"strings"
	"sync"

	"golang.org/x/tools/go/ssa"
)

// ---------- decisions ----------

type Decision struct {
	Kind byte   // 'b' branch, 'c' n-ary choice, 'k' concretisation attempt
	V    int64  // branch: 0/1; choice: index; conc: 1 = took "== K", 0 = took "!= K"
	K    string // conc: the constant (decimal)
	N    int    // choice arity
}

type pathEnd struct {
	kind string // "done", "infeasible", "unsupported", "unwind", "stop", "deadlock", "steps"
	msg  string
}

// goPanic is a Go-level panic travelling through interpreted frames.
type goPanic struct {
	val   Value // interface value passed to panic
	rt    string
	stack string
}

type Draw struct {
	Name string `json:"name"`
	Kind string `json:"kind"` // int, bytes, bool, f64
	Bits int    `json:"bits,omitempty"`
	N    int    `json:"n,omitempty"` // bytes: count
	vars []*Term

	Unsigned bool `json:"unsigned,omitempty"`
}

type Violation struct {
	Harness  string
	Kind     string // "assert", "panic", "unwind", "deadlock"
	Msg      string
	Stack    string
	Model    Model
	Draws    []Draw
	Trace    []Decision
	Sched    []string
	Checked  bool // model re-evaluated against the encoding
	Observed []string
}

type Exec struct {
	eng     *Engine
	tt      *TermTable
	sol     *Solver
	intMode bool
	h       *HarnessRun

	// per path
	prefix   []Decision
	trace    []Decision
	pc       []*Term
	draws    []Draw
	drawCnt  map[string]int
	objN     int
	globals  map[*ssa.Global]*Object
	initDone map[*ssa.Package]int // 0 none, 1 running, 2 done
	steps    int64
	covers   map[string]bool
	unknowns int
	threads  []*Thread
	cur      *Thread
	ghost    map[string]Value
	clock    *Term // virtual time in ns (int64 term)
	timers   []*vtimer
	preempt  int
	schedLog []string
	observed []string
	mapN     int
	depth    int
	feasMemo map[string]Res
	pcKey    strings.Builder
	fresh    int
	stubsHit map[string]bool
	fnsHit   map[*ssa.Function]bool
	syncObjs map[*Object]*syncState
	guards   []guardDecl
	raceObjs []*Object
	noModels []string
	raceStep int64
	raceThread int
	lockHeld map[*Object]int // mutex object -> owning thread id (for discipline checks)
	allocLog []*Term

	pcHash            uint64
	pcSet             map[*Term]bool
	model             Model
	modelMemo         map[*Term]*Term
	pathVars          []*Term
	hasRefs           bool
	deferMark         *frame
	syncTab           map[string]*syncState
	symAlloc          bool
	mapPerm           bool
	obsTerms          []obsRec
	preemptBound      int
	autoTime          bool
	schedAtomics      bool
	envDraws          []*Term
	entMemo           map[memoKey]bool
	wraps             int
	sch               *schedState
	unwind            int
	skipIntrinsicOnce *ssa.Function
	afterHooks        []func()
	uniqueTab         []uniqueEnt
	constMemo         map[*Term]*Term
	oneShots          int
	oneShotLimit      int
	inModel           int // >0 while a //verif:model function runs: its draws are solver-side only
	replayModel       Model // non-nil: re-executing a counterexample (every draw pinned to its model value)
	specMode          bool // speculative evaluation of a pure branch side (if-conversion)
	noIfConv          bool
	fpAbstract        bool // fp=abstract: floating-point results on symbolic operands are arbitrary values
	schedAll          bool
	pinQuiet          bool
	mapFixed          bool
	randQueue         []*Term
}

type workItem struct {
	prefix []Decision
}

// HarnessRun aggregates the results of exploring one harness.
type HarnessRun struct {
	mu          sync.Mutex
	Name        string
	Fn          *ssa.Function
	IntMode     bool
	work        []workItem
	inflight    int
	cond        *sync.Cond
	Paths       int
	Ends        map[string]int
	Violations  []*Violation
	Unsupported map[string]int
	Covers      map[string]int
	CoverDecl   map[string]bool
	Steps       int64
	Unknowns    int
	Asserts     int
	AssertsOK   int
	AssertsUnk  int
	Samples     []map[string]string
	Stubs       map[string]bool
	Funcs       map[string]bool
	MaxPaths    int
	Truncated   bool
	UnwindFail  int
	Solver      SolverStats
	Notes       []string
	stopAll     bool
	Kind        string // "api" (may alarm) or "step" (inductive: only strengthens)
	Assumes     map[string]bool
	Bounds      map[string]string
}

func (ex *Exec) resetPath(prefix []Decision) {
	ex.prefix = prefix
	ex.trace = ex.trace[:0]
	ex.pc = ex.pc[:0]
	ex.pcHash = 14695981039346656037
	ex.pcSet = map[*Term]bool{}
	ex.uniqueTab = nil
	ex.constMemo = nil
	ex.model = nil
	ex.modelMemo = nil
	ex.pathVars = nil
	ex.draws = nil
	ex.drawCnt = map[string]int{}
	ex.objN = 0
	ex.globals = map[*ssa.Global]*Object{}
	ex.initDone = map[*ssa.Package]int{}
	ex.steps = 0
	ex.covers = map[string]bool{}
	ex.unknowns = 0
	ex.threads = nil
	ex.cur = nil
	ex.ghost = map[string]Value{}
	ex.clock = nil
	ex.timers = nil
	ex.preempt = 0
	ex.schedLog = nil
	ex.observed = nil
	ex.mapN = 0
	ex.depth = 0
	ex.fresh = 0
	ex.syncObjs = map[*Object]*syncState{}
	ex.guards = nil
	ex.raceObjs = nil
	ex.raceStep = -1
	ex.lockHeld = map[*Object]int{}
	ex.allocLog = nil
	ex.sol.Reset()
}

func (ex *Exec) end(kind, msg string) {
	panic(&pathEnd{kind: kind, msg: msg})
}

func (ex *Exec) unsupported(format string, a ...interface{}) {
	ex.end("unsupported", fmt.Sprintf(format, a...))
}

// addPC adds c to the path condition (no feasibility check).
func (ex *Exec) addPC(c *Term) {
	if c.isConst {
		if c.u == 0 {
			ex.end("infeasible", "assume false")
		}
		return
	}
	if ex.pcSet[c] {
		return
	}
	ex.pc = append(ex.pc, c)
	ex.pcSet[c] = true
	ex.pcHash = (ex.pcHash ^ uint64(c.id+1)) * 1099511628211
	ex.sol.Assert(c)
	// keep the cached model only if it still satisfies the path condition
	if ex.model != nil && ex.evalModel(c) != 1 {
		ex.model = nil
		ex.modelMemo = nil
	}
}

func (ex *Exec) profile(kind string) {
	if !profOn {
		return
	}
	pos := "?"
	if ex.cur != nil && len(ex.cur.frames) > 0 {
		fr := ex.cur.frames[len(ex.cur.frames)-1]
		if fr.curInstr != nil {
			pos = posStr(ex.eng.prog, fr.curInstr.Pos()) + " " + fr.fn.Name()
		}
	}
	profMu.Lock()
	profCnt[kind+" @ "+pos]++
	profMu.Unlock()
}

var profOn = os.Getenv("GOSMT_PROF") != ""
var profMu sync.Mutex
var profCnt = map[string]int{}

// evalModel evaluates a boolean term under the cached model of the path
// condition: 1 true, 0 false, -1 cannot tell.
func (ex *Exec) evalModel(c *Term) int {
	if ex.model == nil {
		return -1
	}
	if ex.modelMemo == nil {
		ex.modelMemo = map[*Term]*Term{}
	}
	r := ex.tt.Eval(c, ex.model, ex.modelMemo)
	if r.isConst && r.sort.K == SBool {
		return int(r.u)
	}
	return -1
}

// feasible asks whether pc ∧ c is satisfiable. On Sat the model is cached when
// wantModel is set (the caller is about to continue under c).
func (ex *Exec) feasible(c *Term) Res {
	r, _ := ex.feasibleM(c, false)
	return r
}

func (ex *Exec) feasibleM(c *Term, wantModel bool) (Res, Model) {
	if c.isConst {
		if c.u == 1 {
			return Sat, nil
		}
		return Unsat, nil
	}
	ex.profile("feasible")
	var r Res
	var m Model
	ex.oneShotLimit = 10000 // an undecided feasibility query keeps both sides; do not wait long
	r, m = ex.solve([]*Term{c}, ex.pathVars, wantModel)
	ex.oneShotLimit = 0
	if r == Unknown {
		ex.unknowns++
	}
	return r, m
}

func (ex *Exec) setModel(m Model) {
	ex.model = m
	ex.modelMemo = nil
}

// branch decides a symbolic condition, forking the exploration when both
// outcomes are feasible.
func (ex *Exec) branch(c *Term) bool {
	if c.isConst {
		return c.u == 1
	}
	if ex.specMode {
		panic(specAbort{})
	}
	nc := ex.tt.Not(c)
	// already decided syntactically by the path condition
	if ex.pcSet[c] {
		return true
	}
	if ex.pcSet[nc] {
		return false
	}
	idx := len(ex.trace)
	if idx < len(ex.prefix) {
		d := ex.prefix[idx]
		if d.Kind != 'b' {
			panic(fmt.Sprintf("replay divergence: expected decision kind %c at %d, have branch on %s", d.Kind, idx, ex.tt.Show(c)))
		}
		ex.trace = append(ex.trace, d)
		if d.V == 1 {
			ex.addPC(c)
			return true
		}
		ex.addPC(nc)
		return false
	}
	var rt, rf Res
	var mt Model
	switch ex.evalModel(c) {
	case 1:
		rt = Sat
		rf = ex.feasible(nc)
	case 0:
		rf = Sat
		rt, mt = ex.feasibleM(c, true)
	default:
		rt, mt = ex.feasibleM(c, true)
		if rt == Unsat {
			rf = Sat
		} else {
			rf = ex.feasible(nc)
		}
	}
	if rt == Unsat {
		ex.trace = append(ex.trace, Decision{Kind: 'b', V: 0})
		ex.addPC(nc)
		return false
	}
	if mt != nil {
		ex.setModel(mt)
	}
	if rf == Unsat {
		ex.trace = append(ex.trace, Decision{Kind: 'b', V: 1})
		ex.addPC(c)
		return true
	}
	// both feasible (or unknown): fork
	alt := make([]Decision, len(ex.trace)+1)
	copy(alt, ex.trace)
	alt[len(ex.trace)] = Decision{Kind: 'b', V: 0}
	ex.h.pushWork(alt)
	ex.trace = append(ex.trace, Decision{Kind: 'b', V: 1})
	ex.addPC(c)
	return true
}

// choose makes an n-ary nondeterministic choice not tied to a solver term
// (scheduler, map iteration, select).
func (ex *Exec) choose(n int, what string) int {
	if n <= 1 {
		return 0
	}
	idx := len(ex.trace)
	if idx < len(ex.prefix) {
		d := ex.prefix[idx]
		if d.Kind != 'c' {
			panic(fmt.Sprintf("replay divergence: expected %c at %d, have choice %s", d.Kind, idx, what))
		}
		ex.trace = append(ex.trace, d)
		return int(d.V)
	}
	for i := n - 1; i >= 1; i-- {
		alt := make([]Decision, len(ex.trace)+1)
		copy(alt, ex.trace)
		alt[len(ex.trace)] = Decision{Kind: 'c', V: int64(i), N: n}
		ex.h.pushWork(alt)
	}
	ex.trace = append(ex.trace, Decision{Kind: 'c', V: 0, N: n})
	return 0
}

// concretize enumerates the feasible values of an integer term, one per path.
func (ex *Exec) concretize(t *Term, what string) *Term {
	for {
		if t.isConst {
			return t
		}
		if ex.specMode {
			panic(specAbort{})
		}
		idx := len(ex.trace)
		if idx < len(ex.prefix) {
			d := ex.prefix[idx]
			if d.Kind != 'k' {
				panic(fmt.Sprintf("replay divergence: expected %c at %d, have concretize %s", d.Kind, idx, what))
			}
			ex.trace = append(ex.trace, d)
			k := ex.constFromString(d.K, t.sort)
			if d.V == 1 {
				ex.addPC(ex.tt.Eq(t, k))
				return k
			}
			ex.addPC(ex.tt.Not(ex.tt.Eq(t, k)))
			continue
		}
		res, k := ex.sol.ValueOf(t)
		if res == Unsat {
			ex.end("infeasible", "concretize: no value")
		}
		if res == Unknown || k == nil {
			ex.unknowns++
			ex.end("unsupported", "concretize: solver unknown for "+what)
		}
		ks := constToString(k)
		eq := ex.tt.Eq(t, k)
		// is another value possible?
		other := ex.feasible(ex.tt.Not(eq))
		if other != Unsat {
			alt := make([]Decision, len(ex.trace)+1)
			copy(alt, ex.trace)
			alt[len(ex.trace)] = Decision{Kind: 'k', V: 0, K: ks}
			ex.h.pushWork(alt)
		}
		ex.trace = append(ex.trace, Decision{Kind: 'k', V: 1, K: ks})
		ex.addPC(eq)
		return k
	}
}

func constToString(k *Term) string {
	switch k.sort.K {
	case SInt:
		return k.bi.String()
	default:
		return fmt.Sprintf("%d", k.u)
	}
}

func (ex *Exec) constFromString(s string, so Sort) *Term {
	b, _ := new(big.Int).SetString(s, 10)
	if so.K == SInt {
		return ex.tt.Int(b)
	}
	if so.K == SBool {
		return ex.tt.Bool(b.Sign() != 0)
	}
	return ex.tt.BV(b.Uint64(), so.W)
}

// ---------- work list ----------

func (h *HarnessRun) pushWork(prefix []Decision) {
	h.mu.Lock()
	h.work = append(h.work, workItem{prefix: prefix})
	h.mu.Unlock()
	h.cond.Signal()
}

func (h *HarnessRun) popWork() (workItem, bool) {
	h.mu.Lock()
	defer h.mu.Unlock()
	for {
		if h.stopAll {
			return workItem{}, false
		}
		if n := len(h.work); n > 0 {
			if h.MaxPaths > 0 && h.Paths+h.inflight >= h.MaxPaths {
				h.Truncated = true
				h.work = nil
				continue
			}
			w := h.work[n-1]
			h.work = h.work[:n-1]
			h.inflight++
			return w, true
		}
		if h.inflight == 0 {
			h.cond.Broadcast()
			return workItem{}, false
		}
		h.cond.Wait()
	}
}

func (h *HarnessRun) donePath() {
	h.mu.Lock()
	h.inflight--
	h.mu.Unlock()
	h.cond.Broadcast()
}

// ---------- symbolic inputs ----------

func (ex *Exec) newVarName(label string) string {
	n := ex.drawCnt[label]
	ex.drawCnt[label] = n + 1
	return fmt.Sprintf("%s#%d", label, n)
}

func (ex *Exec) intSortFor(t types.Type) Sort {
	if ex.intMode {
		return IntSort
	}
	b, ok := t.Underlying().(*types.Basic)
	if !ok {
		panic("intSortFor: " + t.String())
	}
	return BVSort(basicWidth(b))
}

func basicWidth(b *types.Basic) int {
	switch b.Kind() {
	case types.Int8, types.Uint8:
		return 8
	case types.Int16, types.Uint16:
		return 16
	case types.Int32, types.Uint32:
		return 32
	case types.Int, types.Uint, types.Int64, types.Uint64, types.Uintptr, types.UntypedInt, types.UnsafePointer, types.UntypedRune:
		return 64
	}
	panic("basicWidth: " + b.String())
}

func isSigned(t types.Type) bool {
	b, ok := t.Underlying().(*types.Basic)
	return ok && b.Info()&types.IsInteger != 0 && b.Info()&types.IsUnsigned == 0
}

func isIntType(t types.Type) bool {
	b, ok := t.Underlying().(*types.Basic)
	return ok && b.Info()&types.IsInteger != 0
}

func isFloatType(t types.Type) bool {
	b, ok := t.Underlying().(*types.Basic)
	return ok && b.Info()&types.IsFloat != 0
}

// typeRange returns [lo,hi] of an integer type as big ints.
func typeRange(t types.Type) (*big.Int, *big.Int) {
	b := t.Underlying().(*types.Basic)
	w := uint(basicWidth(b))
	if isSigned(t) {
		hi := new(big.Int).Lsh(big.NewInt(1), w-1)
		lo := new(big.Int).Neg(hi)
		hi.Sub(hi, big.NewInt(1))
		return lo, hi
	}
	hi := new(big.Int).Lsh(big.NewInt(1), w)
	hi.Sub(hi, big.NewInt(1))
	return big.NewInt(0), hi
}

// mkInt builds an integer constant of Go type t.
func (ex *Exec) mkInt(v int64, t types.Type) *Term {
	if ex.intMode {
		return ex.tt.Int64(v)
	}
	return ex.tt.BV(uint64(v), ex.intSortFor(t).W)
}

func (ex *Exec) mkUint(v uint64, t types.Type) *Term {
	if ex.intMode {
		return ex.tt.Int(new(big.Int).SetUint64(v))
	}
	return ex.tt.BV(v, ex.intSortFor(t).W)
}

var tInt = types.Typ[types.Int]
var tUint8 = types.Typ[types.Uint8]
var tInt64 = types.Typ[types.Int64]
var tUint64 = types.Typ[types.Uint64]
var tBool = types.Typ[types.Bool]
var tString = types.Typ[types.String]

func (ex *Exec) intc(v int64) *Term { return ex.mkInt(v, tInt) }
func (ex *Exec) bytec(v byte) *Term { return ex.mkInt(int64(v), tUint8) }

// newSymInt creates a fresh symbolic integer of Go type t constrained to the
// type's range (Int mode) and records it as a draw.
func (ex *Exec) newSymInt(label string, t types.Type, record bool) *Term {
	name := ex.newVarName(label)
	so := ex.intSortFor(t)
	v := ex.tt.Var(name, so)
	ex.pathVars = append(ex.pathVars, v)
	if ex.intMode {
		lo, hi := typeRange(t)
		ex.tt.setVarRange(v, lo, hi)
		ex.addPC(ex.tt.IntCmp("<=", ex.tt.Int(lo), v))
		ex.addPC(ex.tt.IntCmp("<=", v, ex.tt.Int(hi)))
	}
	if record && ex.inModel == 0 {
		b := t.Underlying().(*types.Basic)
		ex.draws = append(ex.draws, Draw{Name: name, Kind: "int", Bits: basicWidth(b), Unsigned: !isSigned(t), vars: []*Term{v}})
	}
	ex.pin(v)
	return v
}

// pin fixes a fresh variable to its value in the counterexample being
// re-executed (interpreter-level confirmation of a violation).
func (ex *Exec) pin(v *Term) {
	if ex.replayModel == nil {
		return
	}
	c, ok := ex.replayModel[v.name]
	if !ok {
		return
	}
	var k *Term
	switch v.sort.K {
	case SBool:
		k = ex.tt.Bool(c.u == 1)
	case SBV:
		k = ex.tt.BV(c.u, v.sort.W)
	case SInt:
		k = ex.tt.Int(c.bi)
	case SF64:
		k = ex.tt.F64(c.f)
	default:
		return
	}
	eq := ex.tt.Eq(v, k)
	if v.sort.K == SF64 {
		// bit-exact equality (fp.eq would identify +0/-0 and reject NaN)
		eq = ex.tt.app("=", BoolSort, v, k)
	}
	if ex.pinQuiet {
		// exact replay of a decision trace: the pin constrains the solver (so that
		// every later check is decided under the model) but must not change which
		// decisions are taken, hence it stays out of the syntactic shortcut set
		if !eq.isConst {
			ex.pc = append(ex.pc, eq)
			ex.sol.Assert(eq)
		}
		return
	}
	ex.addPC(eq)
}

func (ex *Exec) newSymBool(label string, record bool) *Term {
	name := ex.newVarName(label)
	v := ex.tt.Var(name, BoolSort)
	ex.pathVars = append(ex.pathVars, v)
	if record && ex.inModel == 0 {
		ex.draws = append(ex.draws, Draw{Name: name, Kind: "bool", vars: []*Term{v}})
	}
	ex.pin(v)
	return v
}

func (ex *Exec) newSymBytes(label string, n int, record bool) []*Term {
	name := ex.newVarName(label)
	out := make([]*Term, n)
	for i := range out {
		v := ex.tt.Var(fmt.Sprintf("%s[%d]", name, i), ex.intSortFor(tUint8))
		ex.pathVars = append(ex.pathVars, v)
		ex.pin(v)
		if ex.intMode {
			ex.tt.setVarRange(v, big.NewInt(0), big.NewInt(255))
			ex.addPC(ex.tt.IntCmp("<=", ex.tt.Int64(0), v))
			ex.addPC(ex.tt.IntCmp("<=", v, ex.tt.Int64(255)))
		}
		out[i] = v
	}
	if record && ex.inModel == 0 {
		ex.draws = append(ex.draws, Draw{Name: name, Kind: "bytes", N: n, vars: out})
	}
	return out
}

func (ex *Exec) allDrawVars() []*Term {
	var vs []*Term
	for _, d := range ex.draws {
		vs = append(vs, d.vars...)
	}
	return vs
}

// ---------- violations ----------

func (ex *Exec) recordViolation(kind, msg, stack string, m Model) {
	v := &Violation{Harness: ex.h.Name, Kind: kind, Msg: msg, Stack: stack, Model: m,
		Draws: append([]Draw(nil), ex.draws...), Trace: append([]Decision(nil), ex.trace...),
		Sched: append([]string(nil), ex.schedLog...), Observed: append([]string(nil), ex.observed...)}
	// re-check the model against the encoding: every pc conjunct must evaluate to true
	if m != nil {
		memo := map[*Term]*Term{}
		ok := true
		for _, c := range ex.pc {
			r := ex.tt.Eval(c, m, memo)
			if !(r.isConst && r.u == 1) {
				if r.isConst {
					ok = false
				}
				// non-constant (arrays/UFs): cannot evaluate, leave to native replay
			}
		}
		v.Checked = ok
	}
	ex.h.mu.Lock()
	ex.h.Violations = append(ex.h.Violations, v)
	ex.h.mu.Unlock()
}

// modelNow returns a model of the current path condition plus extra.
func (ex *Exec) modelNow(extra ...*Term) (Res, Model) {
	return ex.solve(extra, ex.pathVars, true)
}

func (ex *Exec) stackString() string {
	if ex.cur == nil {
		return ""
	}
	var sb strings.Builder
	for i := len(ex.cur.frames) - 1; i >= 0 && i >= len(ex.cur.frames)-12; i-- {
		fr := ex.cur.frames[i]
		pos := ""
		if fr.curInstr != nil {
			pos = ex.eng.prog.Fset.Position(fr.curInstr.Pos()).String()
		}
		fmt.Fprintf(&sb, "%s %s\n", fr.fn.String(), pos)
	}
	return sb.String()
}

func sortedKeys(m map[string]int) []string {
	var ks []string
	for k := range m {
		ks = append(ks, k)
	}
	sort.Strings(ks)
	return ks
}
