//go:build verif

//verif:pkg extras/sniff/internal/quic
package quic

import (
	"crypto/cipher"
	"errors"
	"hash"
	"io"
)

// ---- solver-side models of the cryptographic primitives (over-approximating:
// outputs are arbitrary bytes; AEAD.Open succeeds or fails arbitrarily and, like
// the real GCM, writes into dst's backing array: plaintext on success, zeroes on
// failure). Never used natively.

//verif:model golang.org/x/crypto/hkdf.Extract
func zzModelHkdfExtract(h func() hash.Hash, secret, salt []byte) []byte {
	return verifBytes("hkdfExtract", 32)
}

type zzKeyStream struct{}

func (zzKeyStream) Read(p []byte) (int, error) {
	copy(p, verifBytes("hkdfExpand", len(p)))
	return len(p), nil
}

//verif:model golang.org/x/crypto/hkdf.Expand
func zzModelHkdfExpand(h func() hash.Hash, prk, info []byte) io.Reader { return zzKeyStream{} }

type zzBlock struct{ n int }

func (b zzBlock) BlockSize() int { return 16 }
func (b zzBlock) Encrypt(dst, src []byte) {
	_ = src[15]
	copy(dst[:16], verifBytes("aesBlock", 16))
}
func (b zzBlock) Decrypt(dst, src []byte) { copy(dst[:16], verifBytes("aesBlock", 16)) }

//verif:model crypto/aes.NewCipher
func zzModelAESNewCipher(key []byte) (cipher.Block, error) {
	if len(key) != 16 && len(key) != 24 && len(key) != 32 {
		return nil, errors.New("invalid key size")
	}
	return zzBlock{len(key)}, nil
}

type zzAEAD struct{}

var zzMaxPlain = 3

func (zzAEAD) NonceSize() int { return 12 }
func (zzAEAD) Overhead() int  { return 16 }
func (zzAEAD) Seal(dst, nonce, plaintext, ad []byte) []byte {
	return append(dst, verifBytes("sealed", len(plaintext)+16)...)
}
func (zzAEAD) Open(dst, nonce, ciphertext, ad []byte) ([]byte, error) {
	if len(nonce) != 12 {
		panic("crypto/cipher: incorrect nonce length given to GCM")
	}
	if len(ciphertext) < 16 {
		return nil, errors.New("cipher: message authentication failed")
	}
	n := len(ciphertext) - 16
	// bound of the end-to-end harnesses: decrypted payloads longer than zzMaxPlain
	// bytes are explored only through the frame-parser harness
	if n <= zzMaxPlain && verifBool("aeadOK") {
		return append(dst, verifBytes("plain", n)...), nil
	}
	// failure: the output region is cleared, as the real implementation does
	out := append(dst, make([]byte, n)...)
	_ = out
	return nil, errors.New("cipher: message authentication failed")
}

//verif:model crypto/cipher.NewGCM
func zzModelNewGCM(c cipher.Block) (cipher.AEAD, error) { return zzAEAD{}, nil }
