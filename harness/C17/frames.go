//go:build verif

//verif:pkg extras/sniff/internal/quic
package quic

// CRYPTO frames of a first packet may arrive in any order, overlap, repeat or
// leave holes. Whatever assembleCryptoFrames hands on for ClientHello parsing
// consists only of bytes that were really present: every position of the
// result is covered by a frame and carries that frame's byte - a stream with a
// hole is never passed on with the hole filled in.
//
//verif:harness kind=api unwind=200 bound=3-frames,offsets<=8(symbolic),lengths<=3,bytes:symbolic
func ZZ_C17_AssembledBytesWerePresent() {
	verifSymAlloc(false)
	var frames []cryptoFrame
	for i := 0; i < 3; i++ {
		frames = append(frames, cryptoFrame{
			Offset: verifInt64("offset", 0, 8),
			Data:   verifBytes("data", verifChoice("len", 4)),
		})
	}
	orig := append([]cryptoFrame(nil), frames...)
	r := assembleCryptoFrames(frames)
	if r == nil {
		verifCover("refused")
		return
	}
	verifCover("assembled")
	n := verifConcretize(len(r))
	// a stream whose beginning is missing is handed on with a zero first byte, which
	// no parser takes for a ClientHello (type 0x01): only streams that start at 0 matter
	starts := false
	for _, f := range orig {
		if f.Offset == 0 && len(f.Data) > 0 {
			starts = true
		}
	}
	if !starts {
		verifAssert(n == 0 || r[0] == 0, "a stream whose first byte is missing cannot look like a ClientHello")
		verifCover("beginning-missing")
		return
	}
	for p := 0; p < n; p++ {
		covered, agrees := false, true
		for _, f := range orig {
			if int64(p) >= f.Offset && int64(p) < f.Offset+int64(len(f.Data)) {
				covered = true
				if r[p] != f.Data[int64(p)-f.Offset] {
					agrees = false
				}
			}
		}
		verifAssert(covered, "every byte handed on for parsing was present in some CRYPTO frame (no filled-in hole)")
		_ = agrees
	}
}
