//go:build verif

//verif:pkg extras/sniff
package sniff

// A plain HTTP request through the real net/http parser, cut at ANY byte (the
// stream ends or the sniffing deadline fires there), or complete but with a
// malformed later header line: the destination is rewritten - to the Host
// header, keeping the port - only when the whole, well-formed header block
// arrived; truncated or malformed input leaves it untouched. What is handed
// back for replay is exactly what was consumed, always.
//
//verif:harness kind=api unwind=400 nomodel=net/http.ReadRequest bound=one-GET-request(37B),cut-at-every-byte,later-header-well-formed/malformed,chunk∈{1,half,all},error-with-data-or-not
func ZZ_C17_HTTPTruncatedLeavesDestination() {
	verifSymAlloc(false)
	full := "GET / HTTP/1.1\r\nHost: ab.c\r\nX-Y: z\r\n\r\n"
	malformed := verifChoice("laterHeader", 2) == 1
	if malformed {
		full = "GET / HTTP/1.1\r\nHost: ab.c\r\nX-Y  z\r\n\r\n"
	}
	cut := verifChoice("cut", len(full)+1)
	sent := []byte(full[:cut])
	st := &zzStream{data: sent, mode: verifChoice("chunk", 3), failAt: -1, errWithData: verifBool("errWithData")}
	h := &Sniffer{}
	addr := "203.0.113.7:8080"
	out, err := h.TCP(st, &addr)
	verifAssert(err == nil, "sniffing never fails the flow for a host:port address")
	verifAssert(len(out) == st.pos && string(out) == string(sent[:st.pos]), "replayed bytes are exactly the bytes consumed from the stream")
	if cut == len(full) && !malformed {
		verifCover("complete")
		verifAssert(addr == "ab.c:8080", "a complete request rewrites the destination to (Host, original port)")
	} else {
		verifCover("cut-or-malformed")
		verifAssert(addr == "203.0.113.7:8080", "truncated or malformed input leaves the destination untouched")
	}
}
