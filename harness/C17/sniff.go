//go:build verif

//verif:pkg extras/sniff
package sniff

import (
	"bufio"
	"errors"
	"net"
	"net/http"
	"time"

	"github.com/apernet/quic-go"
	utls "github.com/refraction-networking/utls"
)

const zzName = "sni.example"

// ---- solver-side models of the third-party parsers: they consume what the
// caller hands them and report either nothing or a name (which name the bytes
// really contain is inside the parsers, outside this claim) ----

//verif:model github.com/refraction-networking/utls.UnmarshalClientHello
func zzModelClientHello(data []byte) *utls.PubClientHelloMsg {
	if verifBool("helloParsed") {
		return &utls.PubClientHelloMsg{ServerName: zzName}
	}
	return nil
}

// http.ReadRequest pulls an arbitrary number of bytes through the buffered
// reader it is given and returns nothing or a request with a Host.
//
//verif:model net/http.ReadRequest
func zzModelReadRequest(b *bufio.Reader) (*http.Request, error) {
	k := verifChoice("httpWants", 8)
	for i := 0; i < k; i++ {
		if _, err := b.ReadByte(); err != nil {
			return nil, err
		}
	}
	switch verifChoice("httpResult", 3) {
	case 0:
		return nil, errors.New("malformed")
	case 1:
		return &http.Request{Host: zzName}, nil
	}
	return &http.Request{Host: zzName + ":8080"}, nil
}

// scripted client stream
type zzStream struct {
	data   []byte
	pos    int
	mode   int // 0: 1 byte per read, 1: half, 2: all
	reads  int
	failAt int // the read call at which the deadline fires (-1: never; data exhausted = deadline too)
	// quic-go hands out the last bytes together with the error (FIN riding on the
	// final frame, or the deadline firing on a partially filled read)
	errWithData bool
}

func (s *zzStream) StreamID() quic.StreamID { return 0 }
func (s *zzStream) Read(p []byte) (int, error) {
	s.reads++
	failing := s.reads-1 == s.failAt
	if (failing && !s.errWithData) || s.pos >= len(s.data) {
		return 0, errors.New("deadline exceeded")
	}
	if len(p) == 0 {
		return 0, nil
	}
	n := len(p)
	switch s.mode {
	case 0:
		n = 1
	case 1:
		n = (n + 1) / 2
	}
	if n > len(s.data)-s.pos {
		n = len(s.data) - s.pos
	}
	copy(p, s.data[s.pos:s.pos+n])
	s.pos += n
	if s.errWithData && (failing || s.pos == len(s.data)) {
		s.failAt = s.reads // every later read fails too
		return n, errors.New("deadline exceeded / EOF")
	}
	return n, nil
}
func (s *zzStream) Write(p []byte) (int, error)        { return len(p), nil }
func (s *zzStream) Close() error                       { return nil }
func (s *zzStream) SetReadDeadline(t time.Time) error  { return nil }
func (s *zzStream) SetWriteDeadline(t time.Time) error { return nil }
func (s *zzStream) SetDeadline(t time.Time) error      { return nil }

// Whatever the client sends first and however it is chunked or cut by the
// deadline: the bytes handed back for replay are exactly the bytes consumed
// from the stream (so replay + still-unread == sent), and the address is either
// untouched or (reported name, original port).
//
//verif:harness kind=api unwind=128 bound=stream<=9B(quick)/12B(thorough),TLS-record-len<=4,chunk∈{1,half,all},deadline-at-read<=4
func ZZ_C17_TCPTransparent() {
	verifSymAlloc(false)
	max := 9
	if verifThorough() {
		max = 12
	}
	sent := verifBytes("sent", verifChoice("len", max+1))
	if len(sent) >= 5 {
		// TLS record length: keep the record within reach of the stream bound
		verifAssume(sent[3] == 0 && sent[4] <= 4)
	}
	st := &zzStream{data: sent, mode: verifChoice("chunk", 3), failAt: verifChoice("failAt", 5) - 1, errWithData: verifBool("errWithData")}
	h := &Sniffer{RewriteDomain: verifBool("rewriteDomain")}
	addr := "10.0.0.1:443"
	out, err := h.TCP(st, &addr)
	verifAssert(err == nil, "sniffing never fails the flow for a host:port address")
	verifAssert(len(out) == st.pos, "replayed bytes are exactly the bytes consumed from the stream")
	d := byte(0)
	for i := 0; i < len(out) && i < len(sent); i++ {
		d |= out[i] ^ sent[i]
	}
	verifAssert(d == 0, "replayed bytes equal what the client sent, in order")
	verifAssert(addr == "10.0.0.1:443" || addr == zzName+":443", "address untouched or (reported name, original port)")
	if addr != "10.0.0.1:443" {
		verifCover("rewritten")
	} else {
		verifCover("untouched")
	}
}

// A stream that looks like a TLS record with a large declared length (fifteen values
// across the 16-bit range: powers of two and the TLS record limits, ±1) of which only the first bytes ever arrive before the deadline: what
// the sniffer hands back for replay is exactly what it consumed - the five
// header bytes and the body bytes that came - whatever the declared length.
//
//verif:harness kind=api unwind=128 bound=record-length∈{4,255..257,4095,4096,16383..16385,16640,18432,18433,32767,32768,65535}(powers-of-two-and-TLS-limits±1),body-arrived<=3B(symbolic),chunk∈{1,all}
func ZZ_C17_TCPAnyRecordLength() {
	body := verifChoice("bodyLen", 4)
	sent := []byte{[]byte{0x16, 0x17}[verifChoice("type", 2)], 0x03, byte(verifChoice("minor", 4))}
	// declared length: concrete per path (the engine forks on a symbolic allocation size anyway)
	rl := []int{4, 255, 256, 257, 4095, 4096, 16383, 16384, 16385, 16640, 18432, 18433, 32767, 32768, 65535}[verifChoice("recordLen", 15)]
	sent = append(sent, byte(rl>>8), byte(rl))
	sent = append(sent, verifBytes("body", body)...)
	st := &zzStream{data: sent, mode: []int{0, 2}[verifChoice("chunk", 2)], failAt: -1}
	h := &Sniffer{}
	addr := "10.0.0.1:443"
	out, err := h.TCP(st, &addr)
	verifAssert(err == nil, "sniffing never fails the flow")
	verifAssert(len(out) == st.pos && st.pos == len(sent), "replayed bytes are exactly the bytes consumed from the stream")
	d := byte(0)
	for i := 0; i < len(out) && i < len(sent); i++ {
		d |= out[i] ^ sent[i]
	}
	verifAssert(d == 0, "replayed bytes equal what the client sent, in order")
	verifAssert(addr == "10.0.0.1:443", "an incomplete record changes nothing")
	verifCover("incomplete-record")
}

// The bytes handed back for replay belong to the caller: the server keeps them
// while it dials, and other streams are sniffed in the meantime. Sniffing a
// second stream (TLS-looking or not, complete or cut short) leaves the first
// stream's replay bytes exactly as they were returned.
//
//verif:harness kind=api unwind=128 bound=2-streams-in-sequence,TLS-record<=3B,second-stream<=8B
func ZZ_C17_ReplayBytesStayIntact() {
	verifSymAlloc(false)
	h := &Sniffer{}
	// first stream: a TLS record of 0..3 bytes, possibly cut short
	rl := verifChoice("recordLenA", 4)
	sentA := append([]byte{0x16, 0x03, 0x01, 0, byte(rl)}, verifBytes("bodyA", rl)...)
	sentA = sentA[:len(sentA)-verifChoice("cutA", rl+1)]
	stA := &zzStream{data: sentA, mode: 2, failAt: -1}
	addrA := "10.0.0.1:443"
	outA, err := h.TCP(stA, &addrA)
	verifAssert(err == nil && len(outA) == len(sentA), "the first stream is replayed in full")
	// second stream: arbitrary first bytes
	sentB := verifBytes("sentB", 5+verifChoice("lenB", 4))
	verifAssume(sentB[3] == 0 && sentB[4] <= 3)
	stB := &zzStream{data: sentB, mode: 2, failAt: -1}
	addrB := "10.0.0.2:443"
	_, err = h.TCP(stB, &addrB)
	verifAssert(err == nil, "the second stream is sniffed")
	d := byte(0)
	for i := range sentA {
		d |= outA[i] ^ sentA[i]
	}
	verifAssert(d == 0, "the first stream's replay bytes are untouched by the sniffing of another stream")
	verifCover("two-streams")
}

// The first UDP packet is handed to the sniffer as the very slice that is
// forwarded next: it must come back byte-identical.
//
//verif:harness kind=api unwind=128 bound=len∈{0,1,10,29,30}(quick)/+{5,9,11,28,31,40}(thorough),dcil∈{0,8},decrypted<=3B
func ZZ_C17_UDPUnmodified() {
	verifSymAlloc(true)
	lens := []int{0, 1, 10, 29, 30}
	if verifThorough() {
		lens = []int{0, 1, 5, 9, 10, 11, 28, 29, 30, 31, 40}
	}
	n := lens[verifChoice("n", len(lens))]
	data := verifBytes("dgram", n)
	if n > 5 {
		d := []int{0, 8}[verifChoice("dcil", 2)]
		data[5] = byte(d)
		if n > 6+d {
			data[6+d] = 0
		}
		if n > 7+d {
			data[7+d] = 0
		}
	}
	before := append([]byte(nil), data...)
	h := &Sniffer{}
	addr := "10.0.0.1:443"
	err := h.UDP(data, &addr)
	verifAssert(err == nil, "sniffing never fails the flow for a host:port address")
	diff := byte(0)
	for i := range before {
		diff |= before[i] ^ data[i]
	}
	verifAssert(diff == 0, "the datagram is forwarded unmodified")
	verifAssert(addr == "10.0.0.1:443" || addr == zzName+":443", "address untouched or (reported name, original port)")
	verifCover("done")
}

//verif:harness kind=api unwind=64
func ZZ_C17_Check() {
	h := &Sniffer{}
	verifAssert(!h.Check(false, "@abstract"), "abstract addresses are skipped")
	verifAssert(h.Check(true, "1.2.3.4:443") && h.Check(false, "1.2.3.4:80"), "no port filter: every port is sniffed")
	verifAssert(!h.Check(false, "example.com:80"), "domains are left alone unless RewriteDomain")
	_ = net.IPv4zero
	verifCover("check")
}
