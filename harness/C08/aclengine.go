//go:build verif

//verif:pkg extras/outbounds
package outbounds

import (
	"errors"
	"net"
)

// an outbound that accepts everything and records what it was asked
type zzOpenOutbound struct{ udp, check int }

func (o *zzOpenOutbound) TCP(reqAddr *AddrEx) (net.Conn, error) { return nil, errors.New("n/a") }
func (o *zzOpenOutbound) UDP(reqAddr *AddrEx) (UDPConn, error)  { o.udp++; return nil, nil }
func (o *zzOpenOutbound) CheckUDP(reqAddr *AddrEx) error         { o.check++; return nil }

// The shipped ACL outbound answers the per-datagram policy question
// (CheckUDP) exactly as it answers the dial (UDP): for the same destination -
// host name, resolved addresses (symbolic IPv4), port - both walk the same rule
// list, so a destination whose dial would be rejected is rejected per datagram
// as well. Rules: an IP range, a host suffix, a port-limited rule, then allow.
//
//verif:harness kind=api unwind=200 bound=4-rule-list,resolved-IPv4:any,3-host-names,port:any
func ZZ_C08_ACLCheckAgreesWithDial() {
	open := &zzOpenOutbound{}
	eng, err := NewACLEngineFromString("reject(10.0.0.0/8)\nreject(suffix:blocked.example)\nreject(all, udp/161)\nopen(all)\n",
		[]OutboundEntry{{Name: "open", Outbound: open}}, nil)
	verifAssert(err == nil, "the rule list compiles")
	host := []string{"a.example", "x.blocked.example", "10.1.2.3"}[verifChoice("host", 3)]
	ip := net.IPv4(verifByte("ip0"), verifByte("ip1"), 2, 3).To4()
	port := verifUint16("port")
	mk := func() *AddrEx {
		a := &AddrEx{Host: host, Port: port}
		if host != "10.1.2.3" {
			a.ResolveInfo = &ResolveInfo{IPv4: ip}
		} else {
			a.ResolveInfo = &ResolveInfo{IPv4: net.IPv4(10, 1, 2, 3).To4()}
		}
		return a
	}
	_, dialErr := eng.UDP(mk())
	checkErr := eng.CheckUDP(mk())
	verifAssert((dialErr != nil) == (checkErr != nil), "CheckUDP rejects exactly the destinations whose dial is rejected")
	want := host == "x.blocked.example" || host == "10.1.2.3" || (host != "10.1.2.3" && ip[0] == 10) || port == 161
	verifAssert((checkErr != nil) == want, "and both follow the rule list")
	if checkErr != nil {
		verifCover("rejected")
	} else {
		verifCover("allowed")
	}
}
