//go:build verif

//verif:pkg extras/outbounds
package outbounds

import (
	"errors"
	"net"
)

// an outbound that accepts everything and records what it was asked
type zzOpenOutbound struct{ udp, check int }

func (o *zzOpenOutbound) TCP(reqAddr *AddrEx) (net.Conn, error) { return nil, errors.New("n/a") }
func (o *zzOpenOutbound) UDP(reqAddr *AddrEx) (UDPConn, error)  { o.udp++; return nil, nil }
func (o *zzOpenOutbound) CheckUDP(reqAddr *AddrEx) error         { o.check++; return nil }

// The shipped ACL outbound answers the per-datagram policy question
// (CheckUDP) exactly as it answers the dial (UDP): for the same destination -
// host name, resolved addresses (symbolic IPv4), port - both walk the same rule
// list, so a destination whose dial would be rejected is rejected per datagram
// as well. Rules: an IP range, a host suffix, a port-limited rule, then allow.
//
//verif:harness kind=api unwind=200 bound=4-rule-list,resolved-IPv4:any,3-host-names,port:any
func ZZ_C08_ACLCheckAgreesWithDial() {
	open := &zzOpenOutbound{}
	eng, err := NewACLEngineFromString("reject(10.0.0.0/8)\nreject(suffix:blocked.example)\nreject(all, udp/161)\nopen(all)\n",
		[]OutboundEntry{{Name: "open", Outbound: open}}, nil)
	verifAssert(err == nil, "the rule list compiles")
	host := []string{"a.example", "x.blocked.example", "10.1.2.3"}[verifChoice("host", 3)]
	ip := net.IPv4(verifByte("ip0"), verifByte("ip1"), 2, 3).To4()
	port := verifUint16("port")
	mk := func() *AddrEx {
		a := &AddrEx{Host: host, Port: port}
		if host != "10.1.2.3" {
			a.ResolveInfo = &ResolveInfo{IPv4: ip}
		} else {
			a.ResolveInfo = &ResolveInfo{IPv4: net.IPv4(10, 1, 2, 3).To4()}
		}
		return a
	}
	_, dialErr := eng.UDP(mk())
	checkErr := eng.CheckUDP(mk())
	verifAssert((dialErr != nil) == (checkErr != nil), "CheckUDP rejects exactly the destinations whose dial is rejected")
	want := host == "x.blocked.example" || host == "10.1.2.3" || (host != "10.1.2.3" && ip[0] == 10) || port == 161
	verifAssert((checkErr != nil) == want, "and both follow the rule list")
	if checkErr != nil {
		verifCover("rejected")
	} else {
		verifCover("allowed")
	}
}

// name resolution as the resolver outbounds see it: a fixed table
//
//verif:model net.LookupIP
func zzModelLookupIP(host string) ([]net.IP, error) {
	switch host {
	case "inside.example":
		return []net.IP{net.IPv4(10, 9, 9, 9)}, nil
	case "outside.example":
		return []net.IP{net.IPv4(192, 0, 2, 9)}, nil
	}
	if ip := net.ParseIP(host); ip != nil {
		return []net.IP{ip}, nil
	}
	return nil, errors.New("no such host")
}

// The pipeline the application builds - a resolver outbound in front of the
// ACL outbound - answers the per-datagram question as it answers the dial, for
// destinations given by NAME as well: a name that resolves into a rejected
// range is rejected by CheckUDP exactly as by UDP.
//
//verif:harness kind=api replay=interp unwind=200 bound=system-resolver+ACL,4-destinations(by-name-and-by-address),port:any
func ZZ_C08_ResolverPipelineCheckAgreesWithDial() {
	open := &zzOpenOutbound{}
	eng, err := NewACLEngineFromString("reject(10.0.0.0/8)\nreject(all, udp/161)\nopen(all)\n",
		[]OutboundEntry{{Name: "open", Outbound: open}}, nil)
	verifAssert(err == nil, "the rule list compiles")
	pipe := NewSystemResolver(eng)
	host := []string{"inside.example", "outside.example", "10.1.2.3", "unknown.example"}[verifChoice("host", 4)]
	port := verifUint16("port")
	_, dialErr := pipe.UDP(&AddrEx{Host: host, Port: port})
	checkErr := pipe.CheckUDP(&AddrEx{Host: host, Port: port})
	verifAssert((dialErr != nil) == (checkErr != nil), "through the resolver, CheckUDP rejects exactly the destinations whose dial is rejected")
	want := host == "inside.example" || host == "10.1.2.3" || port == 161
	verifAssert((checkErr != nil) == want, "and both follow the rule list on the resolved address")
	verifCover("pipeline")
}
