//go:build verif

//verif:pkg core/server
package server

import (
	"strconv"
	"time"
)

// (white-box: fills the session's decision cache directly; own file so that a
// change of that field costs only this harness)

// The same with the decision cache full (256 real entries) when a new
// destination arrives: whichever entry is evicted - including the verdict of a
// destination used before - later datagrams are still judged by the policy.
//
//verif:harness kind=api unwind=600 preempt=0 bound=cache-full(256),every-eviction-victim(first-overflow),4-datagrams-after-fill,3-destinations
func ZZ_C08_PolicyCacheFull() {
	io := &zzUDPIO{allow: map[string]bool{}}
	io.allow["d0:53"] = true
	io.allow["d1:53"] = verifBool("allow1")
	m := newUDPSessionManager(io, &zzUDPLog{}, time.Minute)
	m.feed(zzDgram(7, "d0:53", 0))
	e := m.m[7]
	for i := 0; len(e.aclCache) < maxSessionACLCache; i++ {
		k := "f" + strconv.Itoa(i) + ":1"
		io.allow[k] = true
		e.aclCache[k] = nil
	}
	c := io.conns[0]
	io.allow["d2:53"] = verifBool("allow2")
	// a new destination arrives at the full cache (any eviction victim) ...
	m.feed(zzDgram(7, "d1:53", 1))
	n := len(c.writes)
	verifAssert((n == 2) == io.allow["d1:53"], "a new destination is judged by the policy even when the cache is full")
	// ... and whatever the cache did about it (evict one, evict many), every later
	// datagram is still judged by the policy
	verifMapOrder(false)
	for s := 0; s < 3; s++ {
		d := zzDests[verifChoice("dest", len(zzDests))]
		before := len(c.writes)
		m.feed(zzDgram(7, d, byte(2+s)))
		if len(c.writes) > before {
			verifAssert(len(c.writes) == before+1 && c.writes[before] == d, "a datagram goes to the destination it names")
			verifAssert(io.allow[d], "after the cache overflowed a datagram is still forwarded only to a destination the policy allows")
		} else {
			verifAssert(!io.allow[d], "an allowed destination stays deliverable after eviction")
		}
	}
	verifAssert(len(e.aclCache) <= maxSessionACLCache, "the cache stays within its cap")
	verifCover("evicted")
}

