//go:build verif

//verif:pkg core/server
package server

import (
	"time"
)

var zzDests = []string{"d0:53", "d1:53", "d2:53"}

// Within a session a datagram reaches a destination only if the outbound
// policy allows it, for an arbitrary policy over three destinations and any
// sequence of datagrams - also when the per-session decision cache is full
// (256 entries, arbitrary eviction victim) when the sequence starts.
//
//verif:harness kind=api unwind=600 preempt=0 bound=destinations=3,datagrams<=3(quick)/4(thorough)
func ZZ_C08_PolicyEveryDatagram() {
	io := &zzUDPIO{allow: map[string]bool{}}
	for _, d := range zzDests {
		io.allow[d] = verifBool("allow")
	}
	m := newUDPSessionManager(io, &zzUDPLog{}, time.Minute)
	steps := 3
	if verifThorough() {
		steps = 4
	}
	for s := 0; s < steps; s++ {
		d := zzDests[verifChoice("dest", len(zzDests))]
		before := 0
		if len(io.conns) > 0 {
			before = len(io.conns[0].writes)
		}
		m.feed(zzDgram(7, d, byte(s)))
		if len(io.conns) > 0 {
			w := io.conns[0].writes
			if len(w) > before {
				verifAssert(len(w) == before+1 && w[before] == d, "a datagram goes to the destination it names")
				verifAssert(io.allow[d], "a datagram is forwarded only to a destination the policy allows")
				verifCover("forwarded")
			} else {
				verifAssert(!io.allow[d], "a datagram to an allowed destination is forwarded")
				verifCover("dropped")
			}
		} else {
			verifAssert(!io.allow[d], "the session's first destination was refused by the dial")
		}
	}
	verifAssert(len(io.conns) <= 1, "one socket per session")
	verifCover("done")
}

// With a request hook that rewrites the session's destination, every datagram
// goes to the rewritten destination (vetted by the dial) and replies are
// reported from the original one.
//
//verif:harness kind=api unwind=600 preempt=0 bound=datagrams<=3,one-reply-from-4-source-forms
func ZZ_C08_HookOverride() {
	io := &zzUDPIO{allow: map[string]bool{}, hookTo: "real:443"}
	io.allow["real:443"] = verifBool("allowReal")
	io.allow["orig:443"] = verifBool("allowOrig")
	io.allow["other:1"] = verifBool("allowOther")
	m := newUDPSessionManager(io, &zzUDPLog{}, time.Minute)
	m.feed(zzDgram(9, "orig:443", 1))
	if !io.allow["real:443"] {
		verifCover("refused")
		verifAssert(len(io.conns) == 0, "a rejected rewritten destination gets no socket")
		return
	}
	verifAssert(len(io.dials) == 1 && io.dials[0] == "real:443", "the rewritten destination is what gets dialled (and vetted)")
	m.feed(zzDgram(9, []string{"orig:443", "other:1"}[verifChoice("second", 2)], 2))
	c := io.conns[0]
	for _, w := range c.writes {
		verifAssert(w == "real:443", "every datagram of a hooked session goes to the rewritten destination")
	}
	verifAssert(len(c.writes) == 2, "both datagrams are forwarded")
	// whatever source the socket reports for the reply (the resolved address of the rewritten name, another port, nothing)
	from := []string{"real:443", "93.184.216.34:443", "93.184.216.34:50443", ""}[verifChoice("replyFrom", 4)]
	c.replies <- zzReply{data: []byte{9}, from: from}
	verifQuiesce()
	verifAssert(len(io.sent) == 1 && io.sent[0].addr == "orig:443" && io.sent[0].sid == 9, "replies are reported from the original destination, tagged with the session")
	verifCover("hooked")
}

// A fragmented datagram whose fragments name different destinations (a peer is
// free to do that): whichever destination the reassembled datagram is sent to,
// it is one the policy allows - also when only the first-arriving fragment's
// destination is allowed.
//
//verif:harness kind=api unwind=600 preempt=0 bound=2-fragments,3-destinations,both-arrival-orders,arbitrary-policy
func ZZ_C08_FragmentsNamingDifferentDestinations() {
	io := &zzUDPIO{allow: map[string]bool{}}
	io.allow["d0:53"] = true
	io.allow["d1:53"] = verifBool("allow1")
	io.allow["d2:53"] = verifBool("allow2")
	m := newUDPSessionManager(io, &zzUDPLog{}, time.Minute)
	m.feed(zzDgram(7, "d0:53", 0))
	c := io.conns[0]
	verifAssert(len(c.writes) == 1, "the session is established towards an allowed destination")
	a := zzDests[verifChoice("fragment0Dest", len(zzDests))]
	b := zzDests[verifChoice("fragment1Dest", len(zzDests))]
	f0 := zzDgram(7, a, 1)
	f0.PacketID, f0.FragID, f0.FragCount = 9, 0, 2
	f1 := zzDgram(7, b, 2)
	f1.PacketID, f1.FragID, f1.FragCount = 9, 1, 2
	if verifChoice("order", 2) == 0 {
		m.feed(f0)
		m.feed(f1)
	} else {
		m.feed(f1)
		m.feed(f0)
	}
	if len(c.writes) > 1 {
		verifAssert(len(c.writes) == 2, "the reassembled datagram is sent once")
		verifAssert(io.allow[c.writes[1]], "the reassembled datagram goes only to a destination the policy allows")
		verifAssert(c.writes[1] == a || c.writes[1] == b, "and to a destination one of its fragments names")
		verifCover("forwarded")
	} else {
		verifAssert(!io.allow[a] || !io.allow[b], "it is dropped only if a named destination is rejected")
		verifCover("dropped")
	}
}
