//go:build verif

//verif:pkg extras/sniff/internal/quic
package quic

import "bytes"

func zzLen(max int) int {
	return verifChoice("n", max+1)
}

// zzShape pins the length-prefix bytes of an otherwise arbitrary datagram to
// one of a few values each (every byte string has exactly one such shape; the
// sets below are the explored part): destination CID length, source CID
// length, first byte of the token-length varint.
func zzShape(pkt []byte) {
	if len(pkt) <= 5 {
		return
	}
	ds, ss, ts := []int{0, 8}, []int{0}, []byte{0, 0x40, 0xc0}
	if verifThorough() {
		ds, ss, ts = []int{0, 1, 8, 20}, []int{0, 4}, []byte{0, 2, 0x40, 0xc0}
	}
	d := ds[verifChoice("dcil", len(ds))]
	pkt[5] = byte(d)
	if len(pkt) <= 6+d {
		return
	}
	sl := ss[verifChoice("scil", len(ss))]
	pkt[6+d] = byte(sl)
	if len(pkt) <= 7+d+sl {
		return
	}
	pkt[7+d+sl] = ts[verifChoice("tokenLenByte", len(ts))]
}

// Any datagram of the listed lengths through the QUIC Initial sniffer (header
// parse, key derivation, header-protection removal, AEAD open, frame
// extraction); contents arbitrary, length prefixes from zzShape's sets.
//
//verif:harness kind=api unwind=80 bound=len∈{0,1,5,9,10,11,28,29,30}(quick)/{0..20,28..32}(thorough),dcil∈{0,8}/{0,1,8,20},scil∈{0}/{0,4},decrypted<=3B
func ZZ_C03_QuicReadCryptoPayload() {
	verifSymAlloc(true)
	lens := []int{0, 1, 5, 9, 10, 11, 28, 29, 30}
	if verifThorough() {
		lens = nil
		for i := 0; i <= 20; i++ {
			lens = append(lens, i)
		}
		lens = append(lens, 28, 29, 30, 31, 32)
	}
	pkt := verifBytes("dgram", lens[verifChoice("n", len(lens))])
	zzShape(pkt)
	pl, err := ReadCryptoPayload(pkt)
	if err == nil {
		verifCover("payload")
		_ = pl
	} else {
		verifCover("rejected")
	}
}

// Frame extraction and reassembly on arbitrary decrypted payload bytes.
//
//verif:harness kind=api unwind=80 bound=len<=6(quick)/8(thorough)
func ZZ_C03_QuicFrames() {
	verifSymAlloc(true)
	max := 6
	if verifThorough() {
		max = 8
	}
	b := verifBytes("plain", zzLen(max))
	frs, err := extractCryptoFrames(bytes.NewReader(b))
	if err != nil {
		verifCover("rejected")
		return
	}
	verifCover("frames")
	data := assembleCryptoFrames(frs)
	_ = data
}

// Packet-number decoding for every window/truncation.
//
//verif:harness kind=api
func ZZ_C03_QuicDecodePN() {
	n := uint8(1 + verifChoice("nbytes", 4))
	_ = decodePacketNumber(verifInt64("largest", 0, 1<<62), verifInt64("trunc", 0, 1<<32), n)
	verifCover("pn")
}
