//go:build verif

//verif:pkg core/internal/frag
package frag

import "github.com/apernet/hysteria/core/v2/internal/protocol"

// The stateful receiver behind the UDP message parser: any sequence of two/three
// messages with ARBITRARY fragment index, fragment count and packet id (what a
// hostile peer can put in the header) through one Defragger never panics, and
// a message is handed on only as a whole (single-fragment form).
//
//verif:harness kind=api unwind=600 bound=messages<=2(quick)/3(thorough),fragment-index∈{0,1,2,255},fragment-count∈{0,2,3,255},packet-id∈{1,2},data<=2B
func ZZ_C03_DefragArbitraryHeaders() {
	d := &Defragger{}
	n := 2
	if verifThorough() {
		n = 3
	}
	for i := 0; i < n; i++ {
		m := &protocol.UDPMessage{
			SessionID: 1,
			PacketID:  uint16(1 + verifChoice("packetID", 2)),
			FragID:    []byte{0, 1, 2, 255}[verifChoice("fragID", 4)],
			FragCount: []byte{0, 2, 3, 255}[verifChoice("fragCount", 4)],
			Addr:      "a:1",
			Data:      verifBytes("data", 1+verifChoice("dataLen", 2)),
		}
		out := d.Feed(m)
		if out != nil {
			verifAssert(out.FragCount <= 1, "what is handed on is a whole message")
			verifCover("delivered")
		} else {
			verifCover("held-or-dropped")
		}
	}
}
