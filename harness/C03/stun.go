//go:build verif

//verif:pkg extras/realm
package realm

// The STUN reply parser (pion/stun Decode, mapped-address extraction) on every
// byte string of the listed lengths: no panic; a reply without a usable mapped
// address is an error.
//
//verif:harness kind=api unwind=64 bound=len∈{0,1,19,20,24,28,32}
func ZZ_C03_STUNResponse() {
	n := []int{0, 1, 19, 20, 24, 28, 32}[verifChoice("len", 7)]
	pkt := verifBytes("packet", n)
	msg, addr, err := parseSTUNBindingResponse(pkt)
	if err == nil {
		verifAssert(msg != nil && addr.IsValid(), "an accepted reply carries a valid address")
		verifCover("accepted")
	} else {
		verifCover("rejected")
	}
}
