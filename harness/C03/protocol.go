//go:build verif

//verif:pkg core/internal/protocol
package protocol

import (
	"bytes"
)

// Every datagram of 0..N arbitrary bytes (cap == len) goes through
// ParseUDPMessage, and what it returns through Size/Serialize, without a panic.
//
//verif:harness kind=api unwind=64 bound=len<=24
func ZZ_C03_ParseUDPMessage() {
	n := verifChoice("n", 25)
	b := verifBytes("dgram", n)
	m, err := ParseUDPMessage(b)
	if err != nil {
		verifCover("rejected")
		return
	}
	verifCover("accepted")
	verifAssert(len(m.Addr) >= 1 && len(m.Data) >= 1, "accepted message has address and data")
	out := make([]byte, m.Size())
	k := m.Serialize(out)
	verifAssert(k == m.Size(), "serialize fills exactly Size bytes")
}

// Stream bytes (0..N arbitrary) into ReadTCPRequest / ReadTCPResponse.
//
//verif:harness kind=api unwind=64 bound=len<=12
func ZZ_C03_ReadTCPRequest() {
	verifSymAlloc(true) // buffers sized by the peer stay symbolic-length
	n := verifChoice("n", 13)
	b := verifBytes("stream", n)
	addr, err := ReadTCPRequest(bytes.NewReader(b))
	if err == nil {
		verifCover("accepted")
		verifAssert(len(addr) >= 1, "accepted request has an address")
	} else {
		verifCover("rejected")
	}
}

//verif:harness kind=api unwind=64 bound=len<=12
func ZZ_C03_ReadTCPResponse() {
	verifSymAlloc(true)
	n := verifChoice("n", 13)
	b := verifBytes("stream", n)
	_, _, err := ReadTCPResponse(bytes.NewReader(b))
	if err == nil {
		verifCover("accepted")
	} else {
		verifCover("rejected")
	}
}
