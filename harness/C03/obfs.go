//go:build verif

//verif:pkg extras/obfs
package obfs

import (
	"errors"
	"net"
	"time"
)

type zzC03Addr struct{ s string }

func (zzC03Addr) Network() string   { return "udp" }
func (a zzC03Addr) String() string { return a.s }

// a socket that delivers a script of arbitrary packets, then fails
type zzC03PC struct {
	in   [][]byte
	from []net.Addr
}

func (c *zzC03PC) ReadFrom(p []byte) (int, net.Addr, error) {
	if len(c.in) == 0 {
		return 0, nil, errors.New("closed")
	}
	b, a := c.in[0], c.from[0]
	c.in, c.from = c.in[1:], c.from[1:]
	return copy(p, b), a, nil
}
func (c *zzC03PC) WriteTo(p []byte, addr net.Addr) (int, error) { return len(p), nil }
func (c *zzC03PC) Close() error                                 { return nil }
func (c *zzC03PC) LocalAddr() net.Addr                          { return zzC03Addr{"local"} }
func (c *zzC03PC) SetDeadline(time.Time) error                  { return nil }
func (c *zzC03PC) SetReadDeadline(time.Time) error              { return nil }
func (c *zzC03PC) SetWriteDeadline(time.Time) error             { return nil }

var zzC03Lens = []int{0, 1, 4, 5, 6, 9}

func zzC03Script(n int, small bool) *zzC03PC {
	pc := &zzC03PC{}
	srcs := []net.Addr{zzC03Addr{"a:1"}, zzC03Addr{"b:2"}}
	for i := 0; i < n; i++ {
		lens := zzC03Lens
		if small && n > 2 {
			lens = []int{0, 5, 6, 9} // three-packet sequences: fewer lengths
		}
		l := lens[verifChoice("len", len(lens))]
		b := verifBytes("packet", l)
		if small && l >= 5 {
			// sequences: few chunks, little padding, two message ids (stated bound)
			verifAssume(b[2]&0x0f <= 3 && b[3] == 0 && b[4] <= 1 && b[1] <= 1)
		}
		pc.in = append(pc.in, b)
		pc.from = append(pc.from, srcs[verifChoice("source", 2)])
	}
	return pc
}

// Any sequence of packets (arbitrary bytes, two sources) through the Gecko
// receive path - frame decoding, padding skip, chunk bookkeeping, reassembly -
// never panics; what is delivered fits the caller's buffer.
//
//verif:harness kind=api unwind=200 preempt=0 bound=one-packet:any-header;sequences<=2-packets:chunks<=3,pad<=1,2-message-ids;len∈{0,1,4,5,6,9}({0,5,6,9}-for-3-packet-sequences),2-sources
func ZZ_C03_GeckoReceive() {
	n := 1
	if verifChoice("sequence", 2) == 1 {
		n = 2 // three-packet sequences do not finish within the thorough budget
	}
	pc := zzC03Script(n, n > 1)
	g := newGeckoPacketConn(pc, 1200, 1400)
	buf := make([]byte, 16)
	for i := 0; i <= n; i++ {
		k, _, err := g.ReadFrom(buf)
		if err != nil {
			verifCover("drained")
			break
		}
		verifAssert(k >= 0 && k <= len(buf), "a delivered packet fits the caller's buffer")
		verifCover("delivered")
	}
	g.Close()
}

// The same for the Salamander receive path: packets shorter than the salt,
// exactly the salt, and longer, are dropped or deobfuscated without a panic.
//
//verif:harness kind=api unwind=200 preempt=0 bound=packets<=2,len∈{0,1,4,5,6,9},caller-buffer∈{0,1,16}
func ZZ_C03_SalamanderReceive() {
	pc := zzC03Script(2, false)
	c, err := WrapPacketConnSalamander(pc, []byte("abcd"))
	verifAssert(err == nil, "wrapped")
	buf := make([]byte, []int{0, 1, 16}[verifChoice("bufLen", 3)])
	for i := 0; i < 3; i++ {
		k, _, err := c.ReadFrom(buf)
		if err != nil || k == 0 {
			verifCover("drained")
			break
		}
		verifAssert(k <= len(buf), "a delivered packet fits the caller's buffer")
		verifCover("delivered")
	}
}

// Reassembly of LARGE chunks: a peer sends every chunk of one message, each as
// big as a datagram can be, so that the whole exceeds any single datagram (and
// any fixed scratch size): the receive path delivers or drops it, no panic.
//
//verif:harness kind=api unwind=200 preempt=0 bound=chunks∈{2,3,8},chunk∈{1100,1400}B,caller-buffer∈{1500,4096}
func ZZ_C03_GeckoLargeReassembly() {
	total := []int{2, 3, 8}[verifChoice("chunks", 3)]
	size := []int{1100, 1400}[verifChoice("chunkSize", 2)]
	pc := &zzC03PC{}
	for i := 0; i < total; i++ {
		b := make([]byte, geckoHeaderSize+size)
		b[0] = geckoFlagFragment
		b[1] = 7
		b[2] = byte(i)<<4 | byte(total)
		b[5] = verifByte("first") // payload content does not matter; one symbolic byte per chunk
		pc.in = append(pc.in, b)
		pc.from = append(pc.from, zzC03Addr{"a:1"})
	}
	g := newGeckoPacketConn(pc, 1200, 1400)
	buf := make([]byte, []int{1500, 4096}[verifChoice("callerBuf", 2)])
	k, _, err := g.ReadFrom(buf)
	if err == nil {
		verifAssert(k >= 0 && k <= len(buf), "a delivered packet fits the caller's buffer")
		verifCover("delivered")
	}
	g.Close()
}
