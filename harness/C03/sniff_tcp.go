//go:build verif

//verif:pkg extras/sniff
package sniff

// The first bytes of a sniffed TCP flow are peer-controlled: every stream of
// up to 9 (thorough 12) arbitrary bytes, in every chunking, with the read
// deadline firing at any read, through Sniffer.TCP (protocol detection, TLS
// record header, ClientHello / HTTP request hand-off): no panic. (What is
// replayed afterwards is C17's subject; fakes and parser models are shared with it.)
//
//verif:harness kind=api unwind=128 bound=stream<=9B(quick)/12B(thorough),TLS-record-len<=4,chunk∈{1,half,all},deadline-at-read<=4
func ZZ_C03_SniffTCPFirstBytes() {
	max := 9
	if verifThorough() {
		max = 12
	}
	sent := verifBytes("sent", verifChoice("len", max+1))
	if len(sent) >= 5 {
		verifAssume(sent[3] == 0 && sent[4] <= 4)
	}
	st := &zzStream{data: sent, mode: verifChoice("chunk", 3), failAt: verifChoice("failAt", 5) - 1, errWithData: verifBool("errWithData")}
	h := &Sniffer{RewriteDomain: verifBool("rewriteDomain")}
	addr := "10.0.0.1:443"
	out, err := h.TCP(st, &addr)
	verifAssert(err == nil && len(out) <= len(sent), "malformed first bytes are handed on, not fatal")
	verifCover("sniffed")
}
