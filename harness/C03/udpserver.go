//go:build verif

//verif:pkg core/server
package server

// The stateful receiver behind the UDP parser on the server: one session that
// is sent datagrams for more destinations than its decision cache holds (256
// real entries, then new ones; every eviction victim) keeps running - no panic
// in the session manager's goroutine, which would take the whole server down.
// (The policy side of the same scenario is C08's subject; scenario shared.)
//
//verif:harness kind=api unwind=600 preempt=0 bound=cache-full(256)+4-datagrams,3-destinations
func ZZ_C03_SessionManyDestinations() {
	ZZ_C08_PolicyCacheFull()
	verifCover("survived")
}
