//go:build verif

//verif:pkg extras/outbounds/speedtest
package speedtest

import "io"

// a peer's byte stream, handed out one byte or all at once
type zzReader struct {
	data  []byte
	chunk int
}

func (r *zzReader) Read(p []byte) (int, error) {
	if len(r.data) == 0 {
		return 0, io.EOF
	}
	n := r.chunk
	if n > len(p) {
		n = len(p)
	}
	if n > len(r.data) {
		n = len(r.data)
	}
	copy(p, r.data[:n])
	r.data = r.data[n:]
	return n, nil
}

// Every speed-test message reader on every byte string up to 9 bytes, in one
// or many reads: no panic; a declared message length larger than what follows
// is an error, not an out-of-range access.
//
//verif:harness kind=api unwind=64 bound=len<=9,msgLen<=3-or-truncated,chunk∈{1,all}
func ZZ_C03_SpeedtestReaders() {
	n := verifChoice("len", 10)
	data := verifBytes("stream", n)
	mk := func() io.Reader { return &zzReader{data: append([]byte(nil), data...), chunk: []int{1, 8}[verifChoice("chunk", 2)]} }
	switch verifChoice("reader", 5) {
	case 0:
		_, err := readDownloadRequest(mk())
		verifAssert((err == nil) == (n >= 4), "a download request is four bytes")
	case 1:
		if n >= 3 {
			verifAssume(data[1] == 0 && data[2] <= 3) // declared message length: small or beyond the stream
		}
		ok, msg, err := readDownloadResponse(mk())
		if err == nil {
			verifAssert(n >= 3 && len(msg) == int(data[2]) && n >= 3+len(msg) && ok == (data[0] == 0), "a complete response is returned as sent")
			verifCover("response")
		}
	case 2:
		_, err := readUploadRequest(mk())
		verifAssert((err == nil) == (n >= 4), "an upload request is four bytes")
	case 3:
		if n >= 3 {
			verifAssume(data[1] == 0 && data[2] <= 3)
		}
		_, msg, err := readUploadResponse(mk())
		if err == nil {
			verifAssert(n >= 3+len(msg), "a complete response was present")
		}
	case 4:
		_, _, err := readUploadSummary(mk())
		if err == nil {
			verifCover("summary")
		}
	}
	verifCover("done")
}
