//go:build verif

//verif:pkg core/server
package server

import (
	"io"
)

// one end of a relay whose reads and writes can be held back
type zzGated struct {
	readGate  chan struct{} // a Read waits for a token (nil: never blocks)
	readData  []byte        // what that Read then delivers
	readEOF   bool          // Read returns EOF at once
	reads     int
	writeGate chan struct{} // a Write waits for a token before it looks at its argument
	got       []byte
}

func (e *zzGated) Read(p []byte) (int, error) {
	e.reads++
	if e.readEOF {
		return 0, io.EOF
	}
	if e.reads > 1 || e.readData == nil {
		select {} // nothing more ever arrives
	}
	if e.readGate != nil {
		<-e.readGate
	}
	return copy(p, e.readData), nil
}

func (e *zzGated) Write(p []byte) (int, error) {
	if e.writeGate != nil {
		<-e.writeGate
	}
	e.got = append(e.got, p...)
	return len(p), nil
}

// Two relays of one server, one after the other: the first has ended (its
// target closed) while its other direction is still waiting for the client;
// the second is moving a chunk when the first one's late read finally
// completes. What the second relay's target receives is what the second client
// sent - relays never share a buffer that is still in use (sync.Pool modelled
// with maximal reuse).
//
//verif:harness kind=api replay=interp unwind=64 preempt=0 bound=2-relays,1-chunk-each(2B,symbolic),late-read-of-the-finished-relay
func ZZ_C06_RelaysDoNotShareLiveBuffers() {
	l := &zzCountLogger{vetoAt: -1}
	a, b := verifBytes("chunkA", 2), verifBytes("chunkB", 2)
	// relay A: the target is gone at once; the client's data arrives late
	clientA := &zzGated{readGate: make(chan struct{}), readData: a}
	targetA := &zzGated{readEOF: true}
	errA := copyTwoWayEx("u", clientA, targetA, l, &StreamStats{})
	_ = errA
	// relay B: the client sends a chunk; the target is slow to take it
	clientB := &zzGated{readData: b}
	targetB := &zzGated{writeGate: make(chan struct{})}
	go copyTwoWayEx("u", clientB, targetB, l, &StreamStats{})
	verifQuiesce() // B has read its chunk and is handing it to its target
	clientA.readGate <- struct{}{}
	verifQuiesce() // A's late read has completed
	targetB.writeGate <- struct{}{}
	verifQuiesce()
	verifAssert(len(targetB.got) == 2 && targetB.got[0] == b[0] && targetB.got[1] == b[1], "the second relay's target receives the second client's bytes, unaltered by a finished relay")
	verifCover("two-relays")
}
