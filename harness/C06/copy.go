//go:build verif

//verif:pkg core/server
package server

import (
	"bytes"
	"errors"
	"io"
	"net"
	"time"

	"github.com/apernet/hysteria/core/v2/internal/protocol"
	"github.com/apernet/hysteria/core/v2/internal/utils"
	"github.com/apernet/quic-go"
)

// scripted endpoint: what it will deliver (in chunks, possibly ending with an
// error) and what it received
type zzEnd struct {
	chunks  [][]byte // data handed out, one chunk per Read
	final   error    // error after the last chunk (io.EOF = clean finish)
	finalWithData bool // the error rides on the last chunk
	pos     int
	got     []byte // bytes written to this endpoint
	writeErrAt int  // Write call index that fails (-1 never)
	writes  int
	closed  bool
}

func (e *zzEnd) Read(p []byte) (int, error) {
	if e.pos >= len(e.chunks) {
		return 0, e.final
	}
	c := e.chunks[e.pos]
	e.pos++
	n := copy(p, c)
	if e.pos == len(e.chunks) && e.finalWithData {
		return n, e.final
	}
	return n, nil
}

func (e *zzEnd) Write(p []byte) (int, error) {
	if e.writes == e.writeErrAt {
		e.writes++
		return 0, errors.New("write failed")
	}
	e.writes++
	e.got = append(e.got, p...)
	return len(p), nil
}

func zzEndpoint(tag string, maxChunks int) *zzEnd {
	e := &zzEnd{writeErrAt: -1}
	n := verifChoice(tag+"chunks", maxChunks+1)
	for i := 0; i < n; i++ {
		e.chunks = append(e.chunks, verifBytes(tag+"data", 1+verifChoice(tag+"len", 2)))
	}
	if verifBool(tag + "eof") {
		e.final = io.EOF
	} else {
		e.final = errors.New("connection reset")
	}
	e.finalWithData = n > 0 && verifBool(tag+"errWithData")
	return e
}

func (e *zzEnd) sent(upTo int) []byte {
	var b []byte
	for i := 0; i < upTo && i < len(e.chunks); i++ {
		b = append(b, e.chunks[i]...)
	}
	return b
}

func zzIsPrefix(p, full []byte) bool {
	if len(p) > len(full) {
		return false
	}
	d := byte(0)
	for i := range p {
		d |= p[i] ^ full[i]
	}
	return d == 0
}

// One direction of the relay: what reaches the destination is a prefix of what
// the source delivered, in order and unmodified; every forwarded chunk was
// approved by the logger first; a veto forwards nothing of that chunk and
// returns errDisconnect; a clean end of the source forwards everything; logged
// bytes equal forwarded bytes up to the one chunk in flight.
//
//verif:harness kind=api unwind=64 bound=chunks<=3(quick)/6(thorough),chunk<=2B,veto/write-error-at-any-call
func ZZ_C06_CopyOneDirection() {
	nc := 3
	if verifThorough() {
		nc = 6
	}
	src := zzEndpoint("src", nc)
	dst := &zzEnd{writeErrAt: verifChoice("writeErrAt", nc+1) - 1}
	vetoAt := verifChoice("vetoAt", nc+1) - 1
	var logged uint64
	calls := 0
	lastApprovedWrites := -1
	err := copyBufferLog(dst, src, func(n uint64) bool {
		// called before the chunk is written
		verifAssert(uint64(len(dst.got)) == logged, "every byte forwarded so far was logged (and approved) before")
		lastApprovedWrites = dst.writes
		ok := calls != vetoAt
		calls++
		if ok {
			logged += n
		}
		return ok
	})
	_ = lastApprovedWrites
	all := src.sent(len(src.chunks))
	verifAssert(zzIsPrefix(dst.got, all), "destination received a prefix of what the source sent, in order, unmodified")
	vetoed := vetoAt >= 0 && vetoAt < calls
	if vetoed {
		verifCover("veto")
		verifAssert(err == errDisconnect, "a veto ends the relay with the disconnect error")
		verifAssert(uint64(len(dst.got)) == logged, "nothing of the vetoed chunk was forwarded")
	} else if dst.writeErrAt >= 0 && dst.writeErrAt < dst.writes {
		verifCover("write-error")
		verifAssert(err != nil && err != errDisconnect, "a failed write ends the relay with that error")
		verifAssert(logged-uint64(len(dst.got)) <= 2, "logged and forwarded differ by at most the chunk in flight")
	} else {
		verifAssert(uint64(len(dst.got)) == logged && len(dst.got) == len(all), "without veto or write error everything the source delivered is forwarded and accounted")
		if src.final == io.EOF {
			verifCover("clean-eof")
			verifAssert(err == nil, "a clean end of stream is not an error")
		} else {
			verifAssert(err == src.final, "a read error is reported")
		}
	}
}

type zzCountLogger struct {
	tx, rx   uint64
	vetoAt   int
	calls    int
}

func (l *zzCountLogger) LogTraffic(id string, tx, rx uint64) bool {
	ok := l.calls != l.vetoAt
	l.calls++
	if ok {
		l.tx += tx
		l.rx += rx
	}
	return ok
}
func (l *zzCountLogger) LogOnlineState(id string, online bool)          {}
func (l *zzCountLogger) TraceStream(stream HyStream, stats *StreamStats) {}
func (l *zzCountLogger) UntraceStream(stream HyStream)                   {}

type zzRW2 struct {
	r *zzEnd // what this side delivers
	w *zzEnd // where writes to this side go
}

func (x zzRW2) Read(p []byte) (int, error)  { return x.r.Read(p) }
func (x zzRW2) Write(p []byte) (int, error) { return x.w.Write(p) }

// Both directions at once (two copy goroutines): per direction the prefix and
// accounting laws hold, and the per-user totals handed to the logger equal the
// bytes forwarded in each direction, up to one chunk in flight.
//
//verif:harness kind=api replay=native+sched unwind=64 preempt=1 bound=chunks<=2(quick)/3(thorough)-per-direction,chunk<=2B,one-preemption
func ZZ_C06_CopyTwoWayAccounting() {
	per := 2
	if verifThorough() {
		per = 3
	}
	client := zzEndpoint("c", per) // what the client sends / receives
	remote := zzEndpoint("r", per)
	l := &zzCountLogger{vetoAt: verifChoice("vetoAt", 2*per) - 1}
	stats := &StreamStats{}
	err := copyTwoWayEx("user", zzRW2{r: client, w: client}, zzRW2{r: remote, w: remote}, l, stats)
	verifQuiesce()
	verifAssert(zzIsPrefix(remote.got, client.sent(len(client.chunks))), "target received a prefix of what the client sent")
	verifAssert(zzIsPrefix(client.got, remote.sent(len(remote.chunks))), "client received a prefix of what the target sent")
	vetoed := l.vetoAt >= 0 && l.vetoAt < l.calls
	if !vetoed {
		verifAssert(l.tx == uint64(len(remote.got)) && l.rx == uint64(len(client.got)), "logged totals equal the bytes forwarded in each direction")
		verifAssert(stats.Tx.Load() == l.tx && stats.Rx.Load() == l.rx, "per-stream counters agree")
	} else {
		verifCover("veto")
		verifAssert(l.tx == uint64(len(remote.got)) && l.rx == uint64(len(client.got)), "a veto forwards nothing of the vetoed chunk")
	}
	_ = err
	verifCover("done")
}

// ---- the handler around the relay (stream and connection are solver-side models) ----

type zzDialOutbound struct {
	err    error
	conn   *zzTarget
	dials  []string
}

// the dialled target: silent (its Read blocks until the relay closes it)
type zzTarget struct {
	zzEnd
	done chan struct{}
}

func (t *zzTarget) Read(p []byte) (int, error) {
	<-t.done
	return 0, io.EOF
}

func (t *zzTarget) Close() error {
	if !t.closed {
		t.closed = true
		close(t.done)
	}
	return nil
}
func (t *zzTarget) LocalAddr() net.Addr                { return zzNetAddr{"l"} }
func (t *zzTarget) RemoteAddr() net.Addr               { return zzNetAddr{"r"} }
func (t *zzTarget) SetDeadline(time.Time) error        { return nil }
func (t *zzTarget) SetReadDeadline(time.Time) error    { return nil }
func (t *zzTarget) SetWriteDeadline(time.Time) error   { return nil }

func (o *zzDialOutbound) TCP(reqAddr string) (net.Conn, error) {
	o.dials = append(o.dials, reqAddr)
	if o.err != nil {
		return nil, o.err
	}
	return o.conn, nil
}
func (o *zzDialOutbound) UDP(reqAddr string) (UDPConn, error) { return nil, errors.New("no") }
func (o *zzDialOutbound) CheckUDP(reqAddr string) error        { return nil }

// A failed dial reaches the client as TCPResponse(false, message) and relays
// nothing; a successful one answers ok and relays the client's bytes to the
// target; a logger veto closes the client's connection with code 0x107.
//
//verif:harness kind=api replay=interp unwind=64 preempt=0 bound=payload<=3B,dial-ok/fail,veto-or-not,event-logger-or-not
func ZZ_C06_HandlerDialAndVeto() {
	conn := &quic.Conn{}
	st := &quic.Stream{}
	payload := verifBytes("payload", 1+verifChoice("n", 3))
	zzStream(st).in = append([]byte{0x03, 'a', ':', '1', 0x00}, payload...)
	dialFails := verifBool("dialFails")
	ob := &zzDialOutbound{conn: &zzTarget{done: make(chan struct{})}}
	ob.conn.final = io.EOF
	ob.conn.writeErrAt = -1
	if dialFails {
		ob.err = errors.New("no route")
	}
	l := &zzCountLogger{vetoAt: verifChoice("vetoAt", 3) - 1}
	cfg := &Config{Outbound: ob, TrafficLogger: l}
	if verifChoice("eventLogger", 2) == 1 {
		cfg.EventLogger = &zzEvents{} // with and without an event logger configured
	}
	h := newH3sHandler(cfg, conn)
	h.authenticated = true
	h.authID = "user"
	h.handleTCPRequest(&utils.QStream{Stream: st})
	verifQuiesce()
	out := zzStream(st).out
	ok, msg, err := protocol.ReadTCPResponse(bytes.NewReader(out))
	verifAssert(err == nil, "the client gets a well-formed TCPResponse")
	verifAssert(len(ob.dials) == 1 && ob.dials[0] == "a:1", "the requested address is dialled once")
	if dialFails {
		verifCover("dial-error")
		verifAssert(!ok && msg == "no route", "a failed dial is reported with the outbound's message")
		verifAssert(len(ob.conn.got) == 0, "and nothing is relayed")
		return
	}
	verifAssert(ok, "a successful dial answers ok")
	verifAssert(zzIsPrefix(ob.conn.got, payload), "the target receives a prefix of the client's payload")
	vetoed := l.vetoAt >= 0 && l.vetoAt < l.calls
	if vetoed {
		verifCover("veto")
		verifAssert(zzConn(conn).closed && zzConn(conn).closeCode == closeErrCodeTrafficLimitReached, "a veto closes that user's connection (0x107)")
		verifAssert(uint64(len(ob.conn.got)) == l.tx, "and forwards nothing of the vetoed chunk")
	} else {
		verifCover("relayed")
		verifAssert(len(ob.conn.got) == len(payload) && l.tx == uint64(len(payload)), "the whole payload is relayed and accounted")
		verifAssert(!zzConn(conn).closed, "the connection stays up")
	}
	verifAssert(ob.conn.closed && zzStream(st).closed, "both ends are closed when the relay ends")
}
