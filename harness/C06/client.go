//go:build verif

//verif:pkg core/client
package client

import (
	"bytes"
	"net/http"

	coreErrs "github.com/apernet/hysteria/core/v2/errors"
	"github.com/apernet/hysteria/core/v2/internal/protocol"
	"github.com/apernet/quic-go/quicvarint"
)

// The client end of a proxied TCP connection, fast open on or off, the server
// answering ok or with a dial error carrying a message, followed by payload,
// delivered to the client one byte or all at once: a refused dial reaches the
// caller as DialError with the server's message (from TCP(), or from the first
// Read with fast open) and nothing is relayed; otherwise what the caller reads
// is exactly what the server sent after its response, what the caller writes
// follows the request on the stream unmodified, and Close cancels reading and
// ends the stream gracefully.
//
//verif:harness kind=api replay=interp unwind=300 preempt=0 bound=message<=2B,payload<=3B,write<=2B,chunk∈{1,all},fast-open-on/off,close-with-or-without-reading
func ZZ_C06_ClientConn() {
	zzServer.header = http.Header{"Hysteria-Udp": []string{"false"}}
	zzServer.status = 233
	f := &zzFactory{}
	fastOpen := verifChoice("fastOpen", 2) == 1
	c, _, err := NewClient(&Config{ConnFactory: f, ServerAddr: zzNetAddr{"198.51.100.1:443"}, FastOpen: fastOpen})
	verifAssert(err == nil && c != nil, "the client connects")
	ok := verifChoice("dialOK", 2) == 1
	msg := verifString("message", verifChoice("messageLen", 3))
	payload := verifBytes("payload", verifChoice("payloadLen", 4))
	var reply bytes.Buffer
	verifAssert(protocol.WriteTCPResponse(&reply, ok, msg) == nil, "the server's response is encoded")
	zzNextStreamIn = append(append([]byte(nil), reply.Bytes()...), payload...)
	zzStreamChunk = verifChoice("chunk", 2) // 0: all available, 1: byte by byte
	conn, err := c.TCP("example.com:80")
	verifAssert(len(zzStreamList) == 1, "one stream per proxied connection")
	st := zzStream(zzStreamList[0])
	if !fastOpen {
		if !ok {
			verifCover("dial-error")
			de, isDial := err.(coreErrs.DialError)
			verifAssert(conn == nil && isDial && de.Message == msg, "a refused dial is reported as a dial error carrying the server's message")
			verifAssert(st.closed, "and the stream is given up")
			return
		}
		verifAssert(err == nil && conn != nil, "an accepted dial yields a connection")
	} else {
		verifAssert(err == nil && conn != nil, "with fast open the connection is returned at once")
		verifAssert(len(st.in) == len(reply.Bytes())+len(payload), "and the response has not been consumed yet")
	}
	// the caller writes (with fast open: before the response was looked at)
	w := verifBytes("written", verifChoice("writeLen", 3))
	n, werr := conn.Write(w)
	verifAssert(werr == nil && n == len(w), "writes go through")
	rd := bytes.NewReader(st.out)
	ft, ferr := quicvarint.Read(rd)
	addr, aerr := protocol.ReadTCPRequest(rd)
	verifAssert(ferr == nil && ft == protocol.FrameTypeTCPRequest && aerr == nil && addr == "example.com:80", "the stream starts with a well-formed request for the destination")
	rest := st.out[len(st.out)-rd.Len():]
	verifAssert(bytes.Equal(rest, w), "followed by exactly what the caller wrote")
	// a one-way upload: the caller may close right after writing, without ever reading
	if verifChoice("closeWithoutReading", 2) == 1 {
		verifAssert(conn.Close() == nil, "Close succeeds")
		for _, op := range st.ops {
			verifAssert(op != "cancelwrite", "closing after writing never aborts the sending direction: what was written is still delivered")
		}
		nops := len(st.ops)
		verifAssert(nops >= 2 && st.ops[nops-2] == "cancelread" && st.ops[nops-1] == "close", "Close cancels reading and then ends the stream gracefully")
		verifCover("write-then-close")
		return
	}
	// the caller reads everything
	var got []byte
	buf := make([]byte, 2)
	for i := 0; i < 8; i++ {
		k, rerr := conn.Read(buf)
		if rerr != nil {
			if fastOpen && !ok && len(got) == 0 {
				verifCover("dial-error-on-read")
				de, isDial := rerr.(coreErrs.DialError)
				verifAssert(isDial && de.Message == msg, "with fast open a refused dial surfaces at the first Read, carrying the server's message")
				verifAssert(k == 0, "and relays nothing")
				conn.Close()
				return
			}
			break
		}
		got = append(got, buf[:k]...)
	}
	verifAssert(ok, "data is only ever read from an accepted connection")
	verifAssert(bytes.Equal(got, payload), "the caller reads exactly what the server sent after its response, in order")
	verifAssert(conn.Close() == nil, "Close succeeds")
	nops := len(st.ops)
	verifAssert(nops >= 2 && st.ops[nops-2] == "cancelread" && st.ops[nops-1] == "close", "Close cancels reading and then ends the stream gracefully")
	verifCover("relayed")
}
