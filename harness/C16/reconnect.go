//go:build verif

//verif:pkg core/client
package client

import (
	"errors"
	"net/http"

	coreErrs "github.com/apernet/hysteria/core/v2/errors"
	"github.com/apernet/quic-go"
)

func zzIsClosed(err error) bool {
	_, ok := err.(coreErrs.ClosedError)
	return ok
}

// Sequences of TCP calls and Close on the reconnecting client, with the current
// connection dying (permanent error on stream open), hitting its stream limit
// (recoverable) or the next configuration evaluation failing: at every
// quiescent point at most one transport socket from the factory is open, every
// superseded one has been closed; a permanent error yields a closed-connection
// error now and a fresh connection (new configuration, count+1) on the next
// call; a stream-limit error does not reconnect; after Close nothing is open
// and every call fails without touching the configuration.
//
//verif:harness kind=api replay=interp unwind=64 preempt=0 bound=calls<=4(quick)/5(thorough),lazy/eager,5-faults,5-kinds-of-connection-loss(generic/idle-timeout/application-close/stateless-reset/transport-error)
func ZZ_C16_ReconnectCensus() {
	zzServer.header = http.Header{"Hysteria-Udp": []string{"false"}}
	zzServer.status = 233
	f := &zzFactory{}
	configCalls, configFails := 0, false
	connected := 0
	lastCount := 0
	lazy := verifBool("lazy")
	rc, err := NewReconnectableClient(func() (*Config, error) {
		configCalls++
		if configFails {
			return nil, errors.New("config unavailable")
		}
		return &Config{ConnFactory: f, ServerAddr: zzNetAddr{"198.51.100.1:443"}, FastOpen: true}, nil
	}, func(c Client, info *HandshakeInfo, count int) {
		connected++
		verifAssert(count == lastCount+1, "the connect count increases by one per connection")
		lastCount = count
	}, lazy)
	verifAssert(err == nil && rc != nil, "client is created")
	verifAssert(lazy == (configCalls == 0), "lazy start defers the first connection")
	closed := false
	steps := 4
	// thorough: a kind of loss per fault does not finish within the budget (six calls: >9 min, stopped);
	// there the kind is drawn once per history, in quick (four calls) once per fault
	runKind := -1
	if verifThorough() {
		runKind = verifChoice("lossKindOfRun", 5)
	}
	if verifThorough() {
		steps = 5 // six calls with five kinds of loss do not finish within the budget either (>7 min, stopped)
	}
	expectReconnect := lazy // the next call has to build a connection
	for s := 0; s < steps; s++ {
		before := configCalls
		nconn := len(zzConnList)
		switch verifChoice("call", 2) {
		case 0: // TCP
			fault := verifChoice("fault", 5) // 0 none, 1 permanent error, 2 stream limit, 3 config fails, 4 server refuses the credentials (3, 4: if reconnecting)
			configFails = fault == 3
			zzServer.status = 233
			if fault == 4 {
				zzServer.status = 404
			}
			// the fault hits the connection that serves this call: the current one, or the one about to be built
			if !expectReconnect && nconn > 0 {
				st := zzConn(zzConnList[nconn-1])
				st.streamErr = nil
				if fault == 1 {
					// the ways quic-go reports a dead connection: announced or silent
					kind := runKind
					if kind < 0 {
						kind = verifChoice("lossKind", 5)
					}
					switch kind {
					case 0:
						st.streamErr = errors.New("connection lost")
					case 1:
						st.streamErr = &quic.IdleTimeoutError{} // nothing heard from the server any more
					case 2:
						st.streamErr = &quic.ApplicationError{Remote: true, ErrorCode: 0x107}
					case 3:
						st.streamErr = &quic.StatelessResetError{}
					case 4:
						st.streamErr = &quic.TransportError{Remote: true, ErrorCode: 0xa}
					}
				} else if fault == 2 {
					st.streamErr = &quic.StreamLimitReachedError{}
				}
			}
			c, err := rc.TCP("example.com:80")
			if closed {
				verifCover("after-close")
				verifAssert(zzIsClosed(err) && configCalls == before, "after Close every call fails without reconnecting")
				break
			}
			if expectReconnect {
				verifAssert(configCalls == before+1, "a lost connection is rebuilt from a freshly evaluated configuration")
				if configFails {
					verifCover("config-fails")
					verifAssert(err != nil && c == nil, "a failing reconnect attempt fails the call")
					break // still no connection: the next call tries again
				}
				if fault == 4 {
					verifCover("auth-refused")
					verifAssert(err != nil && c == nil, "a reconnect attempt the server refuses fails the call")
					verifAssert(f.open() == 0, "and leaves no socket behind: the refused attempt's socket is closed")
					break
				}
				verifAssert(err == nil && len(zzConnList) == nconn+1, "and the call goes through on the new connection")
				expectReconnect = false
				verifCover("reconnected")
				break
			}
			verifAssert(configCalls == before, "a live connection is reused")
			switch fault {
			case 1:
				verifCover("permanent-error")
				verifAssert(zzIsClosed(err), "a lost connection is reported as closed-connection error")
				expectReconnect = true
			case 2:
				verifCover("stream-limit")
				verifAssert(err != nil && !zzIsClosed(err), "a recoverable error is passed through")
			default:
				verifAssert(err == nil && c != nil, "the call succeeds")
			}
		case 1:
			verifAssert(rc.Close() == nil, "Close succeeds")
			closed = true
			verifCover("closed")
		}
		verifAssert(f.open() <= 1, "at most one transport socket is open at a quiescent point (superseded ones were closed)")
		if closed {
			verifAssert(f.open() == 0, "after Close every socket is closed")
		}
	}
	verifCover("done")
}

// Several goroutines use the reconnecting client at once. Two calls are in
// flight on the same connection when it dies; their failures are handled one
// after the other, with another call (which reconnects) before, between or
// after them. However the failures and the reconnect interleave, a late
// failure report about the OLD connection never disturbs the NEW one: at most
// one socket is open at every quiescent point, later calls reuse the new
// connection, and after Close nothing is left open.
//
//verif:harness kind=api replay=interp unwind=64 preempt=1 bound=2-calls-in-flight,1-reconnecting-call-at-any-of-3-positions,one-preemption
func ZZ_C16_ConcurrentCallers() {
	zzServer.header = http.Header{"Hysteria-Udp": []string{"false"}}
	zzServer.status = 233
	f := &zzFactory{}
	configCalls := 0
	rc, err := NewReconnectableClient(func() (*Config, error) {
		configCalls++
		return &Config{ConnFactory: f, ServerAddr: zzNetAddr{"198.51.100.1:443"}, FastOpen: true}, nil
	}, nil, false)
	verifAssert(err == nil && configCalls == 1 && len(zzConnList) == 1, "eager start connects once")
	first := zzConn(zzConnList[0])
	first.gate = make(chan struct{})
	errs := make([]error, 2)
	done := make(chan int, 2)
	for i := 0; i < 2; i++ {
		i := i
		go func() {
			_, errs[i] = rc.TCP("example.com:80")
			done <- i
		}()
	}
	verifQuiesce()
	verifAssert(first.waiting == 2, "both calls are in flight on the first connection")
	// the connection dies
	first.streamErr = errors.New("connection lost")
	pos := verifChoice("reconnectingCallAt", 3)
	reconnecting := func() {
		_, err := rc.TCP("example.com:80")
		verifAssert(err == nil, "a call after the loss succeeds on a new connection")
		verifAssert(f.open() <= 1, "at most one transport socket is open (the dead one was closed)")
	}
	if pos == 0 {
		// nobody has noticed yet: the call goes to the dying connection like the others
		verifCover("before-both")
	}
	first.gate <- struct{}{} // the first failure is reported
	verifQuiesce()
	if pos == 1 {
		reconnecting()
		verifCover("between")
	}
	first.gate <- struct{}{} // the second, late, failure report
	verifQuiesce()
	<-done
	<-done
	verifAssert(zzIsClosed(errs[0]) && zzIsClosed(errs[1]), "both calls in flight report the closed connection")
	if pos == 2 {
		reconnecting()
		verifCover("after-both")
	}
	before := configCalls
	_, err = rc.TCP("example.com:80")
	if pos == 0 {
		verifAssert(err == nil && configCalls == before+1, "the next call reconnects")
	} else {
		verifAssert(err == nil && configCalls == before, "the connection built after the loss is still in use: a late failure report does not drop it")
	}
	verifAssert(f.open() == 1, "exactly one transport socket is open")
	verifAssert(rc.Close() == nil, "Close succeeds")
	verifAssert(f.open() == 0, "after Close every socket ever opened is closed")
	verifCover("done")
}

// Close arrives while a (re)connection attempt is still shaking hands - at
// the very first connection of a lazy client or after a loss. Whichever of the
// two finishes first, once both have returned no transport socket is open,
// and later calls fail as closed without touching the configuration.
//
//verif:harness kind=api replay=interp unwind=64 preempt=1 bound=one-handshake-in-flight,first-connect-or-reconnect,one-preemption
func ZZ_C16_CloseDuringHandshake() {
	zzServer.header = http.Header{"Hysteria-Udp": []string{"false"}}
	zzServer.status = 233
	f := &zzFactory{}
	configCalls := 0
	afterLoss := verifChoice("afterLoss", 2) == 1
	rc, err := NewReconnectableClient(func() (*Config, error) {
		configCalls++
		return &Config{ConnFactory: f, ServerAddr: zzNetAddr{"198.51.100.1:443"}, FastOpen: true}, nil
	}, nil, !afterLoss)
	verifAssert(err == nil, "client is created")
	if afterLoss {
		// the first connection dies: the failing call reports it, the next one will reconnect
		zzConn(zzConnList[0]).streamErr = errors.New("connection lost")
		_, e := rc.TCP("example.com:80")
		verifAssert(zzIsClosed(e), "the loss is reported")
		verifCover("after-loss")
	}
	zzServer.dialGate = make(chan struct{})
	var callErr error
	callDone, closeDone := false, false
	go func() {
		_, callErr = rc.TCP("example.com:80")
		callDone = true
	}()
	verifQuiesce()
	verifAssert(zzServer.dialing == 1, "a handshake is in flight")
	go func() {
		rc.Close()
		closeDone = true
	}()
	verifQuiesce()
	zzServer.dialGate <- struct{}{}
	verifQuiesce()
	verifAssert(callDone && closeDone, "both the call and Close return")
	_ = callErr
	verifAssert(f.open() == 0, "after Close every socket is closed - also the one whose handshake was in flight")
	before := configCalls
	_, e := rc.TCP("example.com:80")
	verifAssert(zzIsClosed(e) && configCalls == before, "after Close every call fails without reconnecting")
	zzServer.dialGate = nil
	verifCover("done")
}
