//go:build verif

//verif:pkg core/server
package server

import (
	"net/http"

	"github.com/apernet/quic-go"
	"github.com/apernet/quic-go/http3"
)

// Every request that is not an accepted authentication request is answered by
// the masquerade handler alone: the server issues no operation of its own on
// the ResponseWriter (no header, no status, no body) and hands the very same
// writer and request to the configured handler (http.NotFound when none)
// exactly once. Method, host and path are arbitrary strings of the lengths of
// "POST", "hysteria" and "/auth" (so every same-length near miss is covered),
// plus shorter/longer variants; credentials accepted or rejected; handler
// state before the request arbitrary.
//
//verif:harness kind=api replay=interp unwind=64 bound=method<=5,host<=9,path<=6(symbolic-bytes),one-request-from-arbitrary-handler-state
func ZZ_C02_OnlyMasquerade() {
	method := verifString("method", 3+verifChoice("methodLen", 3))
	host := verifString("host", 7+verifChoice("hostLen", 3))
	path := verifString("path", 4+verifChoice("pathLen", 3))
	accept := verifBool("authenticatorAccepts")
	custom := verifBool("customHandler")
	auth := &zzAuth{verdicts: []bool{accept}}
	ev := &zzEvents{}
	masq := &zzMasq{}
	cfg := &Config{Authenticator: auth, EventLogger: ev, DisableUDP: true}
	if custom {
		cfg.MasqHandler = masq
	}
	zzNotFound = zzMasq{}
	conn := &quic.Conn{}
	h := newH3sHandler(cfg, conn)
	already := verifBool("alreadyAuthenticated")
	if already {
		h.authenticated = true
		h.authID = "user1"
	}
	w := &zzRW{}
	r := zzAuthRequest(method, host, path, "cred", "100", true)
	h.ServeHTTP(w, r)
	isAuth := method == "POST" && host == "hysteria" && path == "/auth"
	if isAuth && (accept || already) {
		verifCover("auth-ok")
		verifAssert(w.status == 233, "an accepted (or repeated) authentication answers 233")
		verifAssert(masq.calls == 0 && zzNotFound.calls == 0, "and is not shown to the masquerade handler")
		if already {
			verifAssert(len(auth.calls) == 0, "a repeated attempt on an authenticated connection is not re-evaluated")
			verifAssert(h.authenticated, "nor does it revoke access")
		}
		return
	}
	verifCover("masquerade")
	verifAssert(w.untouched(), "the server itself writes nothing: no status 233, no Hysteria-* header, no body")
	seen := &zzNotFound
	if custom {
		seen = masq
		verifAssert(zzNotFound.calls == 0, "the configured handler replaces the default 404")
	} else {
		verifAssert(masq.calls == 0, "no handler configured: plain 404")
	}
	verifAssert(seen.calls == 1, "the masquerade handler answers, exactly once")
	verifAssert(seen.w == http.ResponseWriter(w) && seen.r == r, "with the very same writer and request")
	verifAssert(h.authenticated == already, "authentication state unchanged")
	if isAuth {
		verifAssert(len(auth.calls) == 1, "credentials were evaluated once")
	} else {
		verifAssert(len(auth.calls) == 0, "a non-auth request never reaches the authenticator")
	}
	verifAssert(len(ev.connects) == 0, "no connect event")
}

// A proxy stream on an unauthenticated connection draws no reply: the
// dispatcher declines it without reading or writing a byte.
//
//verif:harness kind=api replay=interp unwind=64 bound=frame-type:any
func ZZ_C02_UnauthenticatedStreamSilent() {
	cfg := &Config{Authenticator: &zzAuth{}, DisableUDP: true}
	h := newH3sHandler(cfg, &quic.Conn{})
	st := &quic.Stream{}
	zzStream(st).in = []byte{0x01, 'x', 0x00}
	ft := http3.FrameType(verifUint64("frameType", 0, 1<<62-1))
	hijacked, err := h.ProxyStreamHijacker(ft, st, nil)
	verifAssert(!hijacked && err == nil, "the stream is declined")
	verifAssert(zzStream(st).ops == 0, "nothing is read from or written to the stream")
	verifCover("declined")
}
