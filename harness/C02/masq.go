//go:build verif

//verif:pkg core/server
package server

import (
	"errors"
	"net"
	"net/http"

	"github.com/apernet/quic-go"
	"github.com/apernet/quic-go/http3"
)

// Every request that is not an accepted authentication request is answered by
// the masquerade handler alone: the server issues no operation of its own on
// the ResponseWriter (no header, no status, no body) and hands the very same
// writer and request to the configured handler (http.NotFound when none)
// exactly once. Method, host and path are arbitrary strings of the lengths of
// "POST", "hysteria" and "/auth" (so every same-length near miss is covered),
// plus shorter/longer variants; credentials accepted or rejected; handler
// state before the request arbitrary.
//
//verif:harness kind=api replay=interp unwind=64 bound=method<=5,host<=9,path<=6(symbolic-bytes),bandwidth-header:absent/numeric/empty/overflow/3-symbolic-bytes,one-request-from-arbitrary-handler-state
func ZZ_C02_OnlyMasquerade() {
	method := verifString("method", 3+verifChoice("methodLen", 3))
	host := verifString("host", 7+verifChoice("hostLen", 3))
	path := verifString("path", 4+verifChoice("pathLen", 3))
	accept := verifBool("authenticatorAccepts")
	custom := verifBool("customHandler")
	already := verifBool("alreadyAuthenticated")
	auth := &zzAuth{verdicts: []bool{accept}}
	if already {
		auth.verdicts = []bool{true, accept}
	}
	ev := &zzEvents{}
	masq := &zzMasq{}
	cfg := &Config{Authenticator: auth, EventLogger: ev, DisableUDP: true, Outbound: zzNoOutbound{}}
	if custom {
		cfg.MasqHandler = masq
	}
	zzNotFound = zzMasq{}
	conn := &quic.Conn{}
	h := newH3sHandler(cfg, conn)
	if already {
		// an earlier, accepted authentication on this connection
		w0 := &zzRW{}
		h.ServeHTTP(w0, zzAuthRequest("POST", "hysteria", "/auth", "cred", "100", true))
		verifAssert(w0.status == 233 && len(auth.calls) == 1, "the earlier authentication is accepted")
		auth.calls = nil
		ev.connects = nil
	}
	w := &zzRW{}
	// the bandwidth header is the peer's too: absent, numeric, empty, overflowing or arbitrary text
	rx, hasRx := "100", true
	switch verifChoice("rxHeader", 5) {
	case 1:
		hasRx = false
	case 2:
		rx = ""
	case 3:
		rx = "18446744073709551616"
	case 4:
		rx = verifString("rx", 3)
	}
	r := zzAuthRequest(method, host, path, "cred", rx, hasRx)
	h.ServeHTTP(w, r)
	isAuth := method == "POST" && host == "hysteria" && path == "/auth"
	if isAuth && (accept || already) {
		verifCover("auth-ok")
		verifAssert(w.status == 233, "an accepted (or repeated) authentication answers 233")
		verifAssert(masq.calls == 0 && zzNotFound.calls == 0, "and is not shown to the masquerade handler")
		if already {
			verifAssert(len(auth.calls) == 0, "a repeated attempt on an authenticated connection is not re-evaluated")
			verifAssert(zzProxies(h), "nor does it revoke access")
		}
		return
	}
	verifCover("masquerade")
	verifAssert(w.untouched(), "the server itself writes nothing: no status 233, no Hysteria-* header, no body")
	seen := &zzNotFound
	if custom {
		seen = masq
		verifAssert(zzNotFound.calls == 0, "the configured handler replaces the default 404")
	} else {
		verifAssert(masq.calls == 0, "no handler configured: plain 404")
	}
	verifAssert(seen.calls == 1, "the masquerade handler answers, exactly once")
	verifAssert(seen.w == http.ResponseWriter(w) && seen.r == r, "with the very same writer and request")
	verifAssert(zzProxies(h) == already, "authentication state unchanged: proxy streams are taken exactly as before")
	if isAuth {
		verifAssert(len(auth.calls) == 1, "credentials were evaluated once")
	} else {
		verifAssert(len(auth.calls) == 0, "a non-auth request never reaches the authenticator")
	}
	verifAssert(len(ev.connects) == 0, "no connect event")
}

type zzNoOutbound struct{}

func (zzNoOutbound) TCP(reqAddr string) (net.Conn, error) { return nil, errors.New("refused") }
func (zzNoOutbound) UDP(reqAddr string) (UDPConn, error)  { return nil, errors.New("refused") }
func (zzNoOutbound) CheckUDP(reqAddr string) error         { return nil }

// whether the connection currently accepts proxy streams (observed, not read from its fields)
func zzProxies(h *h3sHandler) bool {
	st := &quic.Stream{}
	zzStream(st).in = []byte{0x44, 0x01, 0x03, 'a', ':', '1', 0x00}
	hijacked, _ := h.ProxyStreamHijacker(http3.FrameType(0x401), st, nil)
	return hijacked
}

// an authenticator that blocks until released, then accepts only "good"
type zzSlowAuth2 struct {
	gate     chan struct{}
	inflight int
	accepted bool
}

func (a *zzSlowAuth2) Authenticate(addr net.Addr, auth string, tx uint64) (bool, string) {
	a.inflight++
	<-a.gate
	a.inflight--
	if auth == "good" {
		a.accepted = true
	}
	return auth == "good", "user1"
}

// While one authentication attempt is still being evaluated, a second request
// or a proxy stream from the same (so far unauthenticated) peer sees nothing
// Hysteria-specific: no 233, no Hysteria-* header, no reply on the stream.
// Afterwards a peer whose credentials were all rejected has seen only the
// masquerade handler.
//
//verif:harness kind=api replay=interp unwind=200 preempt=1 bound=2-requests,1-stream,one-preemption
func ZZ_C02_RejectedAuthInFlight() {
	auth := &zzSlowAuth2{gate: make(chan struct{})}
	masq := &zzMasq{}
	cfg := &Config{Authenticator: auth, DisableUDP: true, MasqHandler: masq, Outbound: zzNoOutbound{}}
	h := newH3sHandler(cfg, &quic.Conn{})
	creds := []string{"good", "bad"}
	c1 := creds[verifChoice("firstCredential", 2)]
	w1 := &zzRW{}
	go h.ServeHTTP(w1, zzAuthRequest("POST", "hysteria", "/auth", c1, "100", true))
	verifQuiesce()
	verifAssert(auth.inflight == 1, "the first request is being evaluated")
	c2 := creds[verifChoice("secondCredential", 2)]
	w2 := &zzRW{}
	go h.ServeHTTP(w2, zzAuthRequest("POST", "hysteria", "/auth", c2, "100", true))
	verifQuiesce()
	verifAssert(w2.untouched(), "while authentication is pending a second request gets no Hysteria-specific answer")
	st := &quic.Stream{}
	zzStream(st).in = []byte{0x44, 0x01, 0x03, 'a', ':', '1', 0x00}
	hijacked, _ := h.ProxyStreamHijacker(http3.FrameType(0x401), st, nil)
	verifQuiesce()
	verifAssert(!hijacked && zzStream(st).ops == 0, "and a proxy stream draws no reply")
	close(auth.gate)
	verifQuiesce()
	good := c1 == "good" || c2 == "good"
	verifAssert(auth.accepted == good, "the authenticator accepted exactly the good credentials")
	if !good {
		verifCover("all-rejected")
		verifAssert(w1.untouched() && w2.untouched(), "a peer whose credentials were all rejected was answered by the masquerade handler alone")
		verifAssert(masq.calls == 2, "once per request")
	} else {
		verifCover("accepted")
		verifAssert((w1.status == 233) == (c1 == "good"), "the first request is answered 233 exactly when its own credentials are good")
		verifAssert(w2.status == 233, "the second request then finds the connection authenticated or authenticates it")
	}
}

// A proxy stream on an unauthenticated connection draws no reply: the
// dispatcher declines it without reading or writing a byte.
//
//verif:harness kind=api replay=interp unwind=64 bound=frame-type:any
func ZZ_C02_UnauthenticatedStreamSilent() {
	cfg := &Config{Authenticator: &zzAuth{}, DisableUDP: true}
	h := newH3sHandler(cfg, &quic.Conn{})
	st := &quic.Stream{}
	zzStream(st).in = []byte{0x01, 'x', 0x00}
	ft := http3.FrameType(verifUint64("frameType", 0, 1<<62-1))
	hijacked, err := h.ProxyStreamHijacker(ft, st, nil)
	verifAssert(!hijacked && err == nil, "the stream is declined")
	verifAssert(zzStream(st).ops == 0, "nothing is read from or written to the stream")
	verifCover("declined")
}

// Histories of authentication attempts on one connection: however many were
// rejected before, every further rejected attempt (and every other request) is
// still answered by the masquerade handler alone - same writer, same request,
// once, nothing written by the server, connection not torn down - and an
// accepted attempt afterwards is still answered 233.
//
//verif:harness kind=api replay=interp unwind=200 preempt=0 bound=requests<=6(quick)/9(thorough),verdicts:any
func ZZ_C02_RepeatedRejections() {
	n := 6
	if verifThorough() {
		n = 9
	}
	auth := &zzAuth{}
	for i := 0; i < n; i++ {
		auth.verdicts = append(auth.verdicts, verifBool("accept"))
	}
	masq := &zzMasq{}
	conn := &quic.Conn{}
	cfg := &Config{Authenticator: auth, EventLogger: &zzEvents{}, DisableUDP: true, MasqHandler: masq, Outbound: zzNoOutbound{}}
	h := newH3sHandler(cfg, conn)
	accepted := false
	for i := 0; i < n; i++ {
		w := &zzRW{}
		var r *http.Request
		isAuth := verifBool("authShaped")
		if isAuth {
			r = zzAuthRequest("POST", "hysteria", "/auth", "cred", "100", true)
		} else {
			r = zzAuthRequest("GET", "example.com", "/", "", "", false)
		}
		before := masq.calls
		evaluated := len(auth.calls)
		h.ServeHTTP(w, r)
		if isAuth && !accepted && auth.verdicts[evaluated] {
			accepted = true
		}
		if isAuth && accepted {
			verifAssert(w.status == 233 && masq.calls == before, "an accepted (or repeated) authentication answers 233")
			verifCover("accepted-after-rejections")
			continue
		}
		verifAssert(w.untouched(), "the server itself writes nothing, however many attempts were rejected before")
		verifAssert(masq.calls == before+1 && masq.w == http.ResponseWriter(w) && masq.r == r, "the masquerade handler answers, exactly once, with the same writer and request")
		verifAssert(!zzConn(conn).closed, "and the connection is not torn down")
		if i >= 4 {
			verifCover("fifth-rejection")
		}
	}
}
