//go:build verif

//verif:pkg core/server
package server

import (
	"time"

	"github.com/apernet/hysteria/core/v2/internal/protocol"
)

const zzTimeout = 10 * time.Second

type zzSess struct {
	last    int64 // virtual time of the last traffic in either direction
	openIdx int   // index of its current socket in io.conns, -1 if none
}

// Histories of client datagrams on two session IDs, remote replies, passages of
// time, socket errors and finally connection loss, with the receive loop, the
// per-session reply loops and the idle sweeper interleaved (bounded
// pre-emption): datagrams leave through the socket their session dialled,
// replies come back tagged with that session, idle sessions are swept within
// one interval while active ones are kept, an expired ID gets a fresh socket,
// every socket is closed exactly once and nothing is left running at the end.
//
//verif:harness kind=api replay=native+sched unwind=400 preempt=0 bound=events<=4,2-session-ids,timeout=10s,sweep=1s
func ZZ_C07_SessionLifecycle() {
	// five events do not finish within the thorough budget (769k paths explored in 15 min, truncated): four in both tiers
	zzSessionLifecycle(4)
}

// The same histories, shorter, with one pre-emption at any synchronisation
// point of the receive loop, reply loops, sweeper and the driving thread.
//
//verif:harness kind=api replay=native+sched unwind=400 preempt=1 sched=all bound=all-wake-up-orders,datagram-or-first-fragment,datagram-racing-the-sweeper;one-preemption
func ZZ_C07_SessionLifecyclePreempt() {
	// a free third event with every wake-up order does not finish within the thorough budget (3.1M paths, truncated)
	zzSessionLifecycleEx(2, true)
}

func zzSessionLifecycle(steps int) { zzSessionLifecycleEx(steps, false) }

func zzSessionLifecycleEx(steps int, race bool) {
	io := &zzUDPIO{allow: map[string]bool{"t:1": true}, in: make(chan *protocol.UDPMessage, 8)}
	log := &zzUDPLog{}
	m := newUDPSessionManager(io, log, zzTimeout)
	done := make(chan struct{})
	go func() {
		m.Run()
		close(done)
	}()
	sess := []*zzSess{nil, {openIdx: -1}, {openIdx: -1}} // indexed by session ID
	for s := 0; s < steps; s++ {
		now := verifNow()
		nk := 4
		if race {
			nk = 6
		}
		ev := verifChoice("event", nk)
		if race {
			// scripted shape: first a datagram or a lone first fragment, last the racing event
			if s == 0 {
				verifAssume(ev == 0 || ev == 5)
			} else if s == steps-1 {
				verifAssume(ev == 4)
			}
		}
		switch ev {
		case 5: // first fragment of a two-fragment message: the session exists but has no socket yet
			id := uint32(1 + verifChoice("fsid", 2))
			if sess[id].openIdx >= 0 {
				continue
			}
			f := zzDgram(id, "t:1", byte(s))
			f.PacketID, f.FragID, f.FragCount = 77, 0, 2
			io.curSess = id
			io.in <- f
			verifQuiesce()
			verifCover("fragment")
		case 4: // a datagram arrives while the sweeper wakes up (no quiescence in between)
			id := uint32(1 + verifChoice("xsid", 2))
			io.curSess = id
			d := zzDgram(id, "t:1", byte(s))
			if verifBool("secondFragment") {
				d.PacketID, d.FragID, d.FragCount = 77, 1, 2
			}
			// let the session become idle just short of the next sweep, then deliver the
			// datagram and the sweeper's tick together
			verifAdvance(int64(10900 * time.Millisecond))
			verifQuiesce()
			io.in <- d
			verifAdvance(int64(200 * time.Millisecond))
			verifQuiesce()
			t := verifNow()
			for sid := uint32(1); sid <= 2; sid++ {
				st := sess[sid]
				_, present := m.m[sid]
				// re-derive the bookkeeping from what is observable
				st.openIdx = -1
				if present {
					for i, c := range io.conns {
						if c.owner == sid && c.closes == 0 {
							st.openIdx = i
						}
					}
					st.last = t
				}
			}
			for _, c := range io.conns {
				if c.closes == 0 {
					e, present := m.m[c.owner]
					verifAssert(present && e.conn == UDPConn(c), "an open socket belongs to a live session (no socket is dialled for a session that was already closed)")
				}
			}
			verifCover("race")
		case 0: // client datagram on session 1 or 2
			id := uint32(1 + verifChoice("sid", 2))
			st := sess[id]
			io.curSess = id
			before := make([]int, len(io.conns))
			for i, c := range io.conns {
				before[i] = len(c.writes)
			}
			nconns := len(io.conns)
			io.in <- zzDgram(id, "t:1", byte(s))
			verifQuiesce()
			if st.openIdx < 0 {
				verifCover("new-session")
				verifAssert(len(io.conns) == nconns+1, "a datagram on an unknown (or expired) session ID opens a fresh socket")
				st.openIdx = nconns
				verifAssert(io.conns[st.openIdx].owner == id && len(io.conns[st.openIdx].writes) == 1, "and leaves through it")
			} else {
				verifAssert(len(io.conns) == nconns, "a live session keeps its socket")
				for i, c := range io.conns {
					if i == st.openIdx {
						verifAssert(len(c.writes) == before[i]+1, "the datagram leaves through its session's socket")
					} else if i < len(before) {
						verifAssert(len(c.writes) == before[i], "and through no other session's socket")
					}
				}
			}
			st.last = now
		case 1: // reply from the Internet on an open socket
			id := uint32(1 + verifChoice("rsid", 2))
			st := sess[id]
			if st.openIdx < 0 {
				continue
			}
			nsent := len(io.sent)
			io.conns[st.openIdx].replies <- zzReply{data: []byte{byte(s)}, from: "t:1"}
			verifQuiesce()
			verifAssert(len(io.sent) == nsent+1 && io.sent[nsent].sid == id, "a packet read from a session's socket goes back tagged with that session's ID only")
			st.last = now
			verifCover("reply")
		case 2: // time passes
			d := []time.Duration{time.Second, 9500 * time.Millisecond, 12 * time.Second}[verifChoice("advance", 3)]
			verifAdvance(int64(d))
			verifQuiesce()
			t := verifNow()
			for id := uint32(1); id <= 2; id++ {
				st := sess[id]
				if st.openIdx < 0 {
					continue
				}
				idle := t - st.last
				_, present := m.m[id]
				if idle <= int64(zzTimeout) {
					verifAssert(present && io.conns[st.openIdx].closes == 0, "a session with traffic within the idle timeout is kept")
				}
				if idle > int64(zzTimeout)+int64(time.Second) {
					verifCover("swept")
					verifAssert(!present && io.conns[st.openIdx].closes == 1, "an idle session is closed within one sweep interval after the timeout")
				}
				if !present {
					st.openIdx = -1
				}
			}
		case 3: // the outbound socket of a session fails
			id := uint32(1 + verifChoice("esid", 2))
			st := sess[id]
			if st.openIdx < 0 {
				continue
			}
			close(io.conns[st.openIdx].replies)
			verifQuiesce()
			_, present := m.m[id]
			verifAssert(!present && io.conns[st.openIdx].closes == 1, "a socket error ends that session and closes its socket once")
			st.openIdx = -1
			verifCover("socket-error")
		}
		for _, c := range io.conns {
			verifAssert(c.closes <= 1, "no socket is closed twice")
		}
	}
	// the client connection ends
	close(io.in)
	left := verifQuiesce()
	<-done
	verifAssert(m.Count() == 0, "all sessions are gone when the connection ends")
	for _, c := range io.conns {
		verifAssert(c.closes == 1, "every socket that was opened is closed exactly once")
	}
	verifAssert(len(log.closes) >= len(log.news), "every session that was announced is also reported closed")
	verifAssert(left == 0, "no goroutine is left behind")
	verifCover("done")
}

// A session whose outbound dial is slow: the idle timeout and a sweep pass
// while the dial is still in progress, then the dial completes; finally the
// client connection ends. Whatever the sweeper did meanwhile, the socket the
// dial produced is closed exactly once and no session is left.
//
//verif:harness kind=api replay=native+sched unwind=400 preempt=1 bound=one-session,dial-outlasting-timeout+sweep,one-preemption
func ZZ_C07_SlowDial() {
	io := &zzUDPIO{allow: map[string]bool{"t:1": true}, in: make(chan *protocol.UDPMessage, 8), dialGate: make(chan struct{})}
	log := &zzUDPLog{}
	m := newUDPSessionManager(io, log, zzTimeout)
	done := make(chan struct{})
	go func() {
		m.Run()
		close(done)
	}()
	io.curSess = 1
	io.in <- zzDgram(1, "t:1", 0)
	verifQuiesce()
	verifAssert(io.dialing == 1, "the session's dial is in progress")
	// the session idles past its timeout and a sweep while the dial hangs
	verifAdvance(int64(zzTimeout) + int64(1500*time.Millisecond))
	verifQuiesce()
	io.dialGate <- struct{}{}
	verifQuiesce()
	if verifBool("moreTime") {
		verifAdvance(int64(zzTimeout) + int64(1500*time.Millisecond))
		verifQuiesce()
	}
	close(io.in)
	verifQuiesce()
	<-done
	verifAssert(m.Count() == 0, "all sessions are gone when the connection ends")
	verifAssert(len(io.conns) == 1, "the dial produced one socket")
	verifAssert(io.conns[0].closes == 1, "every socket that was opened is closed exactly once - also one whose dial outlasted its session")
	verifCover("slow-dial")
}

// Activity keeps a session alive, measured from its LAST packet: the session
// starts at an arbitrary offset from the sweeper's ticks, gets a second packet
// (from the client or from the remote side) an arbitrary moment later, and is
// looked at after an arbitrary further wait - all three symbolic. As long as
// less than the idle timeout has passed since that second packet the session is
// still there with its socket open; one sweep interval after the timeout it is
// gone.
//
//verif:harness kind=api replay=native+sched unwind=400 preempt=0 bound=offset<1s,gap<=2s,wait<=12s(all-symbolic),second-packet:client-or-remote
func ZZ_C07_KeptWhileActive() {
	io := &zzUDPIO{allow: map[string]bool{"t:1": true}, in: make(chan *protocol.UDPMessage, 8)}
	m := newUDPSessionManager(io, &zzUDPLog{}, zzTimeout)
	done := make(chan struct{})
	go func() {
		m.Run()
		close(done)
	}()
	verifQuiesce()
	verifAdvance(verifInt64("offset", 0, int64(time.Second)-1))
	verifQuiesce()
	io.curSess = 1
	io.in <- zzDgram(1, "t:1", 0)
	verifQuiesce()
	verifAssert(len(io.conns) == 1, "the session is open")
	verifAdvance(verifInt64("gap", 1, int64(2*time.Second)))
	verifQuiesce()
	if verifChoice("secondPacketFrom", 2) == 0 {
		io.in <- zzDgram(1, "t:1", 1)
	} else {
		io.conns[0].replies <- zzReply{data: []byte{1}, from: "t:1"}
	}
	verifQuiesce()
	last := verifNow()
	verifAdvance(verifInt64("wait", 1, int64(12*time.Second)))
	verifQuiesce()
	idle := verifNow() - last
	_, present := m.m[1]
	if idle <= int64(zzTimeout) {
		verifAssert(present && io.conns[0].closes == 0, "a session whose last packet is less than the idle timeout old is kept")
		verifCover("kept")
	}
	if idle > int64(zzTimeout)+int64(time.Second) {
		verifAssert(!present && io.conns[0].closes == 1, "an idle session is closed within one sweep interval after the timeout")
		verifCover("swept")
	}
	close(io.in)
	verifQuiesce()
	<-done
	verifAssert(m.Count() == 0 && io.conns[0].closes == 1, "at the end the session is gone and its socket closed once")
}

// Two sessions of one client each send a datagram in two fragments with the
// SAME packet id, the four fragments arriving interleaved in any order: each
// session's socket gets exactly its own datagram, reassembled - nothing of the
// other session's payload, nothing lost.
//
//verif:harness kind=api replay=native+sched unwind=400 preempt=0 bound=2-sessions,2-fragments-each,same-packet-id,every-interleaving
func ZZ_C07_FragmentIsolation() {
	io := &zzUDPIO{allow: map[string]bool{"t:1": true}, in: make(chan *protocol.UDPMessage, 8)}
	m := newUDPSessionManager(io, &zzUDPLog{}, zzTimeout)
	done := make(chan struct{})
	go func() {
		m.Run()
		close(done)
	}()
	mk := func(sid uint32, frag uint8, data byte) *protocol.UDPMessage {
		f := zzDgram(sid, "t:1", data)
		f.PacketID, f.FragID, f.FragCount = 77, frag, 2
		return f
	}
	frs := []*protocol.UDPMessage{mk(1, 0, 0xa0), mk(1, 1, 0xa1), mk(2, 0, 0xb0), mk(2, 1, 0xb1)}
	// any arrival order of the four fragments
	left := []int{0, 1, 2, 3}
	for len(left) > 0 {
		k := verifChoice("next", len(left))
		f := frs[left[k]]
		left = append(left[:k], left[k+1:]...)
		io.curSess = f.SessionID
		io.in <- f
		verifQuiesce()
	}
	verifAssert(len(io.conns) == 2, "each session has its own socket")
	for _, c := range io.conns {
		verifAssert(len(c.writes) == 1, "each session's datagram leaves once, through its own socket")
		verifAssert(len(c.payloads) == 1 && len(c.payloads[0]) == 2, "reassembled from its two fragments")
		if c.owner == 1 {
			verifAssert(c.payloads[0][0] == 0xa0 && c.payloads[0][1] == 0xa1, "session 1's socket carries session 1's payload only")
		} else {
			verifAssert(c.payloads[0][0] == 0xb0 && c.payloads[0][1] == 0xb1, "session 2's socket carries session 2's payload only")
		}
	}
	close(io.in)
	verifQuiesce()
	<-done
	verifCover("isolated")
}

// A session's socket fails (or the sweeper removes the session) while a
// datagram for that session is being forwarded - no quiescence in between, one
// pre-emption, every wake-up order. Whatever happened to the racing datagram,
// a LATER datagram with the same ID is not lost to the dead session: it leaves
// through an open socket of its session (a fresh one if the old one is gone),
// and a reply on that socket comes back tagged with the session.
//
//verif:harness kind=api replay=native+sched unwind=400 preempt=1 sched=all atomics=sched bound=one-session,datagram-racing-a-socket-error,atomic-operations-are-scheduling-points,then-1..2-datagrams+reply,one-preemption
func ZZ_C07_ExitRacingDatagram() {
	io := &zzUDPIO{allow: map[string]bool{"t:1": true}, in: make(chan *protocol.UDPMessage, 8)}
	log := &zzUDPLog{}
	m := newUDPSessionManager(io, log, zzTimeout)
	done := make(chan struct{})
	go func() {
		m.Run()
		close(done)
	}()
	io.curSess = 1
	io.in <- zzDgram(1, "t:1", 0)
	verifQuiesce()
	verifAssert(len(io.conns) == 1 && len(io.conns[0].writes) == 1, "the first datagram opens the session's socket and leaves through it")
	// the race: a datagram is handed to the receive loop and the socket fails
	io.in <- zzDgram(1, "t:1", 1)
	close(io.conns[0].replies)
	verifQuiesce()
	verifAssert(io.conns[0].closes == 1, "the failed socket is closed once")
	later := 1 + verifChoice("later", 2)
	for k := 0; k < later; k++ {
		total := 0
		for _, c := range io.conns {
			total += len(c.writes)
		}
		io.in <- zzDgram(1, "t:1", byte(2+k))
		verifQuiesce()
		after, open := 0, 0
		for _, c := range io.conns {
			after += len(c.writes)
			if c.closes == 0 {
				open++
			}
		}
		verifAssert(after == total+1, "a later datagram with the same ID leaves through a socket (it is not lost to the dead session)")
		verifAssert(open == 1 && m.Count() == 1, "on one live session with one open socket")
	}
	verifCover("later-datagrams-forwarded")
	close(io.in)
	left := verifQuiesce()
	<-done
	for _, c := range io.conns {
		verifAssert(c.closes == 1, "every socket that was opened is closed exactly once")
	}
	verifAssert(left == 0 && m.Count() == 0, "nothing is left behind")
}
