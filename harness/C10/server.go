//go:build verif

//verif:pkg core/server
package server

import (
	"strconv"

	"github.com/apernet/hysteria/core/v2/internal/congestion/brutal"
	"github.com/apernet/quic-go"
)

// reference decoding of the client's Hysteria-CC-RX header: a decimal uint64;
// anything that is not a decimal number reads as 0 (unknown), a decimal number
// beyond 64 bits saturates at 2^64-1 (what strconv.ParseUint hands back).
func zzRefRx(s string, present bool) uint64 {
	if !present || len(s) == 0 {
		return 0
	}
	for i := 0; i < len(s); i++ {
		if s[i] < '0' || s[i] > '9' {
			return 0
		}
	}
	var v uint64
	for i := 0; i < len(s); i++ {
		d := uint64(s[i] - '0')
		if v > (1<<64-1-d)/10 {
			return 1<<64 - 1
		}
		v = v*10 + d
	}
	return v
}

var zzCornerRx = []string{"", "0", "auto", "-1", "1e3", "65536", "18446744073709551615", "18446744073709551616", " 7"}

// Server side of the rate negotiation, for arbitrary server limits and client
// declarations: tx = min(server MaxTx, client Rx) with 0 = unlimited for the
// server and unknown for the client; a fixed rate exactly when tx > 0 and the
// server does not ignore client bandwidth; the rate reported (Connect event)
// is the rate installed; the authenticator sees the client's declaration; the
// response carries the server's Rx or "auto".
//
//verif:harness kind=api replay=interp unwind=64 bound=MaxTx:any-uint64,clientRx:3(quick)/6(thorough)-symbolic-digits+corner-strings,MaxRx∈{0,65536,2^40}
func ZZ_C10_ServerRate() {
	maxTx := verifUint64("maxTx", 0, 1<<64-1)
	maxRx := []uint64{0, 65536, 1 << 40}[verifChoice("maxRx", 3)]
	ignore := verifBool("ignoreClientBandwidth")
	ccType := []string{"bbr", "reno"}[verifChoice("ccType", 2)]
	var rxStr string
	present := true
	switch verifChoice("rxKind", 3) {
	case 0:
		rxStr = zzCornerRx[verifChoice("corner", len(zzCornerRx))]
	case 1:
		nd := 3
		if verifThorough() {
			nd = 6
		}
		n := 1 + verifChoice("digits", nd)
		b := verifBytes("rxDigits", n)
		for i := range b {
			verifAssume(b[i] >= '0' && b[i] <= '9')
		}
		rxStr = string(b)
	default:
		present = false
	}
	auth := &zzAuth{}
	ev := &zzEvents{}
	cfg := &Config{Authenticator: auth, EventLogger: ev, DisableUDP: true, IgnoreClientBandwidth: ignore}
	cfg.BandwidthConfig.MaxTx = maxTx
	cfg.BandwidthConfig.MaxRx = maxRx
	cfg.CongestionConfig.Type = ccType
	conn := &quic.Conn{}
	h := newH3sHandler(cfg, conn)
	w := &zzRW{}
	h.ServeHTTP(w, zzAuthRequest("POST", "hysteria", "/auth", "secret", rxStr, present))
	verifAssert(w.status == 233 && h.authenticated, "accepted credentials answer 233")
	clientRx := zzRefRx(rxStr, present)
	verifAssert(len(auth.calls) == 1 && auth.calls[0].tx == clientRx && auth.calls[0].auth == "secret", "the authenticator sees the credentials and the client's declared rate")
	// specification
	want := clientRx
	if maxTx > 0 && want > maxTx {
		want = maxTx
	}
	if ignore {
		want = 0
	}
	verifAssert(len(ev.connects) == 1 && ev.connects[0] == want, "the reported rate is min(server limit, client declaration) (0 when not fixed)")
	st := zzConn(conn)
	bs, isBrutal := st.cc.(*brutal.BrutalSender)
	if want > 0 {
		verifCover("fixed-rate")
		verifAssert(st.ccSet == 1 && isBrutal, "a fixed-rate controller is installed exactly when there is a usable limit")
		verifAssert(zzBrutalRate[bs] == want, "the rate enforced is the rate reported")
		verifAssert(want <= clientRx && (maxTx == 0 || want <= maxTx), "never above either side's limit")
	} else {
		verifCover("configured-cc")
		verifAssert(!isBrutal, "without a usable limit (or with ignore-client-bandwidth) the configured controller runs")
		if ccType == "reno" {
			verifAssert(st.ccSet == 0, "reno: quic-go's default controller is left in place")
		} else {
			verifAssert(st.ccSet == 1, "bbr is installed")
		}
	}
	rxHdr := w.hdr.Get("Hysteria-CC-RX")
	if ignore {
		verifAssert(rxHdr == "auto", "ignore-client-bandwidth is announced as auto")
	} else {
		verifAssert(rxHdr == strconv.FormatUint(maxRx, 10), "the server announces its receive limit")
	}
}
