//go:build verif

//verif:pkg core/client
package client

import (
	"net/http"
	"strconv"

	"github.com/apernet/hysteria/core/v2/internal/congestion/brutal"
)

// reference decoding of the server's Hysteria-CC-RX header (as on the server side)
func zzRefRx(s string) (auto bool, v uint64) {
	if s == "auto" {
		return true, 0
	}
	if len(s) == 0 {
		return false, 0
	}
	for i := 0; i < len(s); i++ {
		if s[i] < '0' || s[i] > '9' {
			return false, 0
		}
	}
	for i := 0; i < len(s); i++ {
		d := uint64(s[i] - '0')
		if v > (1<<64-1-d)/10 {
			return false, 1<<64 - 1
		}
		v = v*10 + d
	}
	return false, v
}

var zzCornerRx = []string{"", "0", "auto", "AUTO", "-1", "1e3", "65536", "18446744073709551615", "18446744073709551616"}

// Client side of the rate negotiation: tx = min(client MaxTx, server Rx) with
// server 0 = unlimited, client 0 = unknown; "auto" or no usable limit runs the
// configured controller; HandshakeInfo.Tx is the rate installed; the request
// declares the client's receive limit.
//
//verif:harness kind=api replay=interp unwind=64 bound=MaxTx:any-uint64,serverRx:3(quick)/6(thorough)-symbolic-digits+corner-strings,MaxRx∈{0,65536,2^40}
func ZZ_C10_ClientRate() {
	maxTx := verifUint64("maxTx", 0, 1<<64-1)
	maxRx := []uint64{0, 65536, 1 << 40}[verifChoice("maxRx", 3)]
	ccType := []string{"bbr", "reno"}[verifChoice("ccType", 2)]
	var rxStr string
	present := true
	switch verifChoice("rxKind", 3) {
	case 0:
		rxStr = zzCornerRx[verifChoice("corner", len(zzCornerRx))]
	case 1:
		nd := 3
		if verifThorough() {
			nd = 6
		}
		n := 1 + verifChoice("digits", nd)
		b := verifBytes("rxDigits", n)
		for i := range b {
			verifAssume(b[i] >= '0' && b[i] <= '9')
		}
		rxStr = string(b)
	default:
		present = false
	}
	zzServer.header = http.Header{"Hysteria-Udp": []string{"false"}}
	if present {
		zzServer.header["Hysteria-Cc-Rx"] = []string{rxStr}
	}
	f := &zzFactory{}
	cfg := &Config{ConnFactory: f, ServerAddr: zzNetAddr{"198.51.100.1:443"}, Auth: "secret"}
	cfg.BandwidthConfig.MaxTx = maxTx
	cfg.BandwidthConfig.MaxRx = maxRx
	cfg.CongestionConfig.Type = ccType
	c, info, err := NewClient(cfg)
	verifAssert(err == nil && c != nil && info != nil, "handshake succeeds on status 233")
	verifAssert(zzServer.lastReq.Header.Get("Hysteria-CC-RX") == strconv.FormatUint(maxRx, 10), "the request declares the client's receive limit")
	verifAssert(zzServer.lastReq.Header.Get("Hysteria-Auth") == "secret", "credentials are sent")
	auto, serverRx := zzRefRx(rxStr)
	if !present {
		auto, serverRx = false, 0
	}
	want := serverRx
	if want == 0 || want > maxTx {
		want = maxTx
	}
	if auto {
		want = 0
	}
	verifAssert(info.Tx == want, "the reported rate is min(client limit, server declaration) (0 when not fixed)")
	verifAssert(len(zzConnList) == 1, "one connection")
	st := zzConn(zzConnList[0])
	bs, isBrutal := st.cc.(*brutal.BrutalSender)
	if want > 0 {
		verifCover("fixed-rate")
		verifAssert(st.ccSet == 1, "one controller installed")
		verifAssert(isBrutal, "a fixed-rate controller is installed when there is a usable limit")
		verifAssert(zzBrutalRate[bs] == want, "the rate enforced is the rate reported")
		verifAssert(want <= maxTx && (serverRx == 0 || want <= serverRx), "never above either side's limit")
	} else {
		verifCover("configured-cc")
		verifAssert(!isBrutal, "auto / no usable limit: the configured controller runs")
	}
}
