//go:build verif

//verif:pkg extras/realm
package realm

import (
	"crypto/rand"
	"crypto/sha256"
	"encoding/hex"
	"hash"
	"io"
	"math/big"
	"net"
	"time"
)

// ---- solver-side models (never called natively) ----

// SHA-256 as an uninterpreted function of the bytes written.
//
//verif:model crypto/sha256.New
func zzModelSha256New() hash.Hash { return &zzHash{} }

type zzHash struct{ buf []byte }

func (h *zzHash) Write(p []byte) (int, error) { h.buf = append(h.buf, p...); return len(p), nil }
func (h *zzHash) Sum(b []byte) []byte         { return append(b, verifUF("sha256", h.buf, 32)...) }
func (h *zzHash) Reset()                      { h.buf = nil }
func (h *zzHash) Size() int                   { return 32 }
func (h *zzHash) BlockSize() int              { return 64 }

// crypto/rand.Int for small max: two random bytes, masked, accepted when below
// max (the rejection loop's first accepted sample).
//
//verif:model crypto/rand.Int
func zzModelRandInt(r io.Reader, max *big.Int) (*big.Int, error) {
	m := max.Int64()
	var b [2]byte
	rand.Read(b[:])
	bits := 0
	for x := m - 1; x > 0; x >>= 1 {
		bits++
	}
	v := (int64(b[0])<<8 | int64(b[1])) & (int64(1)<<uint(bits) - 1)
	verifAssume(v < m && v <= zzMaxPad)
	return big.NewInt(v), nil
}

// bound on the padding length explored through EncodePunchPacket (solver side)
var zzMaxPad int64 = 3

func init() {
	verifUFImpl["sha256"] = func(in []byte) []byte { s := sha256.Sum256(in); return s[:] }
}

func zzMeta(tag string) (PunchMetadata, []byte, []byte) {
	nonce := verifBytes(tag+"nonce", PunchNonceSize)
	key := verifBytes(tag+"obfs", PunchObfsKeySize)
	return PunchMetadata{Nonce: hex.EncodeToString(nonce), Obfs: hex.EncodeToString(key)}, nonce, key
}

// reference decoder written from the wire format
func zzRefDecodes(pkt, nonce, key []byte) bool {
	if len(pkt) < 33 || len(pkt) > 33+1024 {
		return false
	}
	h := sha256.New()
	h.Write(key)
	h.Write(pkt[:8])
	mask := h.Sum(nil)
	magic := []byte{'H', 'Y', 'R', 'L', 'M', 'v', '1', 0}
	bad := byte(0)
	for i := 0; i < 8; i++ {
		bad |= pkt[8+i] ^ mask[i%32] ^ magic[i]
	}
	t := pkt[16] ^ mask[8]
	for i := 0; i < 16; i++ {
		bad |= pkt[17+i] ^ mask[(9+i)%32] ^ nonce[i]
	}
	return bad == 0 && (t == 1 || t == 2)
}

var zzPktLens = []int{0, 32, 33, 34, 48}

// zzPacket draws an arbitrary packet of n bytes. For n >= 8 it is drawn as
// salt || (plain XOR mask(key, salt)): every packet has exactly one such
// representation, and a counterexample expressed in (salt, plain) replays
// natively with the real SHA-256.
func zzPacket(tag string, n int, key []byte) []byte {
	if n < 8 {
		return verifBytes(tag+"raw", n)
	}
	salt := verifBytes(tag+"salt", 8)
	plain := verifBytes(tag+"plain", n-8)
	h := sha256.New()
	h.Write(key)
	h.Write(salt)
	mask := h.Sum(nil)
	pkt := make([]byte, n)
	copy(pkt, salt)
	for i := range plain {
		pkt[8+i] = plain[i] ^ mask[i%32]
	}
	return pkt
}

// DecodePunchPacket accepts exactly the packets the format defines.
//
//verif:harness kind=api unwind=1200 bound=len∈{0,32,33,34,48}
func ZZ_C20_DecodeExact() {
	meta, nonce, key := zzMeta("a")
	pkt := zzPacket("p", zzPktLens[verifChoice("len", len(zzPktLens))], key)
	pp, err := DecodePunchPacket(pkt, meta)
	want := zzRefDecodes(pkt, nonce, key)
	if err == nil {
		verifCover("accepted")
		verifAssert(want, "a packet is accepted only if magic, type and nonce match under this metadata")
		verifAssert(pp.PaddingLength == len(pkt)-33, "padding length reported")
	} else {
		verifCover("rejected")
		verifAssert(!want, "a well-formed punch packet under this metadata is accepted")
	}
}

// the window's upper edge (contents beyond the header are padding)
//
//verif:harness kind=api unwind=1200 bound=len∈{1057,1058}
func ZZ_C20_DecodeWindow() {
	meta, nonce, key := zzMeta("a")
	n := 1057 + verifChoice("over", 2)
	pkt := make([]byte, n)
	copy(pkt, zzPacket("h", 33, key))
	_, err := DecodePunchPacket(pkt, meta)
	verifAssert((err == nil) == zzRefDecodes(pkt, nonce, key), "length window edge agrees with the format")
	if n == 1058 {
		verifAssert(err != nil, "1058-byte packet is too long")
	}
	verifCover("edge")
}

// Encode -> decode succeeds under the same metadata (any padding, both types)
// and fails under another nonce.
//
//verif:harness kind=api unwind=1200 bound=padding<=3(sampled by assumption),types{1,2}
func ZZ_C20_EncodeDecode() {
	meta, _, _ := zzMeta("a")
	t := PunchPacketType(1 + verifChoice("type", 2))
	pkt, err := EncodePunchPacket(t, meta)
	verifAssert(err == nil, "encode succeeds for valid type and metadata")
	pp, err := DecodePunchPacket(pkt, meta)
	verifAssert(err == nil && pp.Type == t && pp.PaddingLength == len(pkt)-33, "decodes under the metadata that encoded it")
	other, n2, _ := zzMeta("b")
	other.Obfs = meta.Obfs
	_ = n2
	_, err = DecodePunchPacket(pkt, other)
	if other.Nonce != meta.Nonce {
		verifAssert(err != nil, "does not decode under a different nonce")
		verifCover("other-nonce")
	}
	_, err = EncodePunchPacket(PunchPacketType(verifByte("badtype")), meta)
	verifCover("done")
}

// ---- demux ----

type zzPC struct {
	in [][]byte
}

func (c *zzPC) ReadFrom(p []byte) (int, net.Addr, error) {
	if len(c.in) == 0 {
		return 0, nil, net.ErrClosed
	}
	b := c.in[0]
	c.in = c.in[1:]
	return copy(p, b), &net.UDPAddr{IP: net.IPv4(10, 0, 0, 1), Port: 4000}, nil
}
func (c *zzPC) WriteTo(p []byte, a net.Addr) (int, error) { return len(p), nil }
func (c *zzPC) Close() error                              { return nil }
func (c *zzPC) LocalAddr() net.Addr                       { return &net.UDPAddr{} }
func (c *zzPC) SetDeadline(t time.Time) error             { return nil }
func (c *zzPC) SetReadDeadline(t time.Time) error         { return nil }
func (c *zzPC) SetWriteDeadline(t time.Time) error        { return nil }

// A packet that is not a STUN message is withheld from the reader only if it
// decodes under a currently registered attempt; otherwise it comes back
// byte-identical. After removal nothing is diverted.
//
//verif:harness kind=api unwind=1200 bound=len∈{0,32,33,34,48},attempts<=2
func ZZ_C20_Demux() {
	ma, na, ka := zzMeta("a")
	mb, nb, kb := zzMeta("b")
	// drawn relative to attempt A's key or B's key (either covers every packet)
	pk := ka
	if verifBool("relB") {
		pk = kb
	}
	pkt := zzPacket("p", zzPktLens[verifChoice("len", len(zzPktLens))], pk)
	inner := &zzPC{in: [][]byte{append([]byte(nil), pkt...)}}
	c, err := NewPunchPacketConn(inner, 0)
	verifAssert(err == nil, "conn")
	regA, regB := verifBool("regA"), verifBool("regB")
	if regA {
		verifAssert(c.AddPunchAttempt("A", ma) == nil, "add A")
	}
	if regB {
		verifAssert(c.AddPunchAttempt("B", mb) == nil, "add B")
	}
	if regA && verifBool("removeA") {
		c.RemovePunchAttempt("A")
		regA = false
	}
	isStun := len(pkt) >= 20 && pkt[4] == 0x21 && pkt[5] == 0x12 && pkt[6] == 0xa4 && pkt[7] == 0x42
	verifAssume(!isStun)
	buf := make([]byte, 2048)
	n, addr, rerr := c.ReadFrom(buf)
	ours := (regA && zzRefDecodes(pkt, na, ka)) || (regB && zzRefDecodes(pkt, nb, kb))
	if rerr != nil {
		verifCover("diverted")
		verifAssert(ours, "only packets of a registered attempt are withheld")
		verifAssert(len(c.Events()) == 1, "the punch event is emitted")
		return
	}
	verifCover("passed")
	verifAssert(!ours, "a packet of a registered attempt is diverted")
	verifAssert(n == len(pkt) && addr != nil, "length and source preserved")
	diff := byte(0)
	for i := 0; i < n; i++ {
		diff |= buf[i] ^ pkt[i]
	}
	verifAssert(diff == 0, "bytes preserved")
}

// zzValid builds a well-formed punch packet for (nonce, key) with the given
// type, salt and padding.
func zzValid(tag string, t byte, nonce, key []byte, pad int) []byte {
	salt := verifBytes(tag+"salt", 8)
	plain := append([]byte{'H', 'Y', 'R', 'L', 'M', 'v', '1', 0, t}, nonce...)
	plain = append(plain, verifBytes(tag+"pad", pad)...)
	h := sha256.New()
	h.Write(key)
	h.Write(salt)
	mask := h.Sum(nil)
	pkt := append([]byte(nil), salt...)
	for i := range plain {
		pkt = append(pkt, plain[i]^mask[i%32])
	}
	return pkt
}

// History: packets of an attempt are diverted while it is registered and reach
// the reader again once it has been removed - also after packets of that very
// attempt were seen, and whatever other attempt stays registered.
//
//verif:harness kind=api unwind=1200 bound=2-packets(hello,ack),attempts<=2,no-padding
func ZZ_C20_RemovalEndsDiversion() {
	ma, na, ka := zzMeta("a")
	mb, nb, kb := zzMeta("b")
	p1 := zzValid("p1", 1, na, ka, 0)
	p2 := zzValid("p2", 2, na, ka, 0)
	// a packet of A is not at the same time a packet of B (that would be a hash collision)
	verifAssume(!zzRefDecodes(p1, nb, kb) && !zzRefDecodes(p2, nb, kb))
	// STUN classification is outside this harness (as in ZZ_C20_Demux)
	verifAssume(!(p1[4] == 0x21 && p1[5] == 0x12 && p1[6] == 0xa4 && p1[7] == 0x42))
	verifAssume(!(p2[4] == 0x21 && p2[5] == 0x12 && p2[6] == 0xa4 && p2[7] == 0x42))
	inner := &zzPC{in: [][]byte{append([]byte(nil), p1...), append([]byte(nil), p2...)}}
	c, _ := NewPunchPacketConn(inner, 0)
	verifAssert(c.AddPunchAttempt("A", ma) == nil, "add A")
	if verifBool("alsoB") {
		verifAssert(c.AddPunchAttempt("B", mb) == nil, "add B")
	}
	buf := make([]byte, 2048)
	// first read: p1 is diverted, then p2 as well, then the socket is exhausted
	keepReading := verifBool("removeAfterFirst")
	if keepReading {
		// deliver only p1 now
		inner.in = inner.in[:1]
		_, _, err := c.ReadFrom(buf)
		verifAssert(err != nil, "a packet of the registered attempt is withheld")
		verifAssert(len(c.Events()) == 1, "and reported as an event")
		c.RemovePunchAttempt("A")
		inner.in = [][]byte{append([]byte(nil), p2...)}
		n, _, err := c.ReadFrom(buf)
		verifAssert(err == nil && n == len(p2), "after removal the attempt's packets reach the reader")
		d := byte(0)
		for i := 0; i < n; i++ {
			d |= buf[i] ^ p2[i]
		}
		verifAssert(d == 0, "byte-identical")
		verifCover("removed")
		return
	}
	_, _, err := c.ReadFrom(buf)
	verifAssert(err != nil && len(c.Events()) == 2, "both packets of the registered attempt are withheld")
	verifCover("kept")
}
