//go:build verif

//verif:pkg extras/realm
package realm

// STUN on the shared socket: a well-formed STUN message with a mapped-address
// attribute and ANY message type (symbolic 14 bits) is taken off the path to
// QUIC only if it is a Binding success response; every other STUN message
// reaches the reader byte-identical.
//
//verif:harness kind=api unwind=1200 bound=32-byte-STUN-message(header+XOR-MAPPED-ADDRESS),type:any,transaction-id:symbolic
func ZZ_C20_OnlyBindingResponsesDiverted() {
	t0, t1 := verifByte("type0"), verifByte("type1")
	verifAssume(t0&0xc0 == 0) // the two top bits of a STUN message are zero
	pkt := []byte{t0, t1, 0, 12, 0x21, 0x12, 0xa4, 0x42}
	pkt = append(pkt, verifBytes("txid", 12)...)
	pkt = append(pkt, 0x00, 0x20, 0x00, 0x08, 0x00, 0x01) // XOR-MAPPED-ADDRESS, IPv4
	pkt = append(pkt, verifBytes("xport", 2)...)
	pkt = append(pkt, verifBytes("xaddr", 4)...)
	inner := &zzPC{in: [][]byte{append([]byte(nil), pkt...)}}
	c, _ := NewPunchPacketConn(inner, 0)
	buf := make([]byte, 2048)
	n, _, err := c.ReadFrom(buf)
	binding := t0 == 0x01 && t1 == 0x01
	if err != nil || n == 0 {
		verifCover("diverted")
		verifAssert(binding, "only a Binding success response is withheld from the reader")
		return
	}
	verifCover("passed-through")
	verifAssert(n == len(pkt), "any other STUN message reaches the reader whole")
	d := byte(0)
	for i := 0; i < n && i < len(pkt); i++ {
		d |= buf[i] ^ pkt[i]
	}
	verifAssert(d == 0, "byte-identical")
}
