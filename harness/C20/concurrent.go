//go:build verif

//verif:pkg extras/realm
package realm

// Removal from two goroutines at once (two responders finishing together):
// once both are done, neither attempt is diverted any more - a removed
// attempt's packets reach the reader, whatever the interleaving.
//
//verif:harness kind=api replay=native+sched unwind=1200 preempt=1 bound=2-attempts,2-concurrent-removals,one-preemption
func ZZ_C20_ConcurrentRemovals() {
	ma, na, ka := zzMeta("a")
	mb, nb, kb := zzMeta("b")
	pa := zzValid("pa", 1, na, ka, 0)
	pb := zzValid("pb", 1, nb, kb, 0)
	// a packet of one attempt is not at the same time a packet of the other (that would be a hash collision)
	verifAssume(!zzRefDecodes(pa, nb, kb) && !zzRefDecodes(pb, na, ka))
	verifAssume(!(pa[4] == 0x21 && pa[5] == 0x12 && pa[6] == 0xa4 && pa[7] == 0x42))
	verifAssume(!(pb[4] == 0x21 && pb[5] == 0x12 && pb[6] == 0xa4 && pb[7] == 0x42))
	inner := &zzPC{}
	c, _ := NewPunchPacketConn(inner, 0)
	verifAssert(c.AddPunchAttempt("A", ma) == nil, "add A")
	verifAssert(c.AddPunchAttempt("B", mb) == nil, "add B")
	go c.RemovePunchAttempt("A")
	go c.RemovePunchAttempt("B")
	verifQuiesce()
	buf := make([]byte, 2048)
	inner.in = [][]byte{append([]byte(nil), pa...)}
	n, _, err := c.ReadFrom(buf)
	verifAssert(err == nil && n == len(pa), "an attempt removed concurrently with another stays removed: its packets reach the reader")
	inner.in = [][]byte{append([]byte(nil), pb...)}
	n, _, err = c.ReadFrom(buf)
	verifAssert(err == nil && n == len(pb), "and so does the other one")
	verifCover("both-removed")
}
