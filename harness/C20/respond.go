//go:build verif

//verif:pkg extras/realm
package realm

import (
	"context"
	"errors"
	"net/netip"
	"time"
)

// The server side of a punch attempt ends in several ways: it is refused up
// front (negative timeout, non-positive interval, no usable peer address), or
// it runs and times out. However it ended, once Respond has returned the
// attempt diverts nothing any more: a well-formed punch packet for it reaches
// the reader byte-identical, and the same attempt id can be used again.
//
//verif:harness kind=api replay=interp unwind=1200 preempt=0 bound=4-ways-to-end,1-late-packet
func ZZ_C20_RespondReleasesAttempt() {
	ma, na, ka := zzMeta("a")
	late := zzValid("late", 1, na, ka, 0)
	verifAssume(!(late[4] == 0x21 && late[5] == 0x12 && late[6] == 0xa4 && late[7] == 0x42)) // not STUN-looking
	inner := &zzPC{}
	c, _ := NewPunchPacketConn(inner, 0)
	ctx, cancel := context.WithCancel(context.Background())
	sp, err := NewServerPuncher(ctx, c)
	verifAssert(err == nil, "server puncher starts")
	local := []netip.AddrPort{netip.MustParseAddrPort("192.0.2.1:4000")}
	peer := []netip.AddrPort{netip.MustParseAddrPort("198.51.100.7:5000")}
	cfg := PunchConfig{Timeout: 2 * time.Second, Interval: time.Second}
	how := verifChoice("ends", 4)
	switch how {
	case 0:
		cfg.Timeout = -time.Second
	case 1:
		cfg.Interval = -time.Second
	case 2:
		peer = nil
	}
	var rerr error
	finished := false
	go func() {
		_, rerr = sp.Respond(context.Background(), "A", local, peer, ma, cfg)
		finished = true
	}()
	verifQuiesce()
	if how == 3 {
		verifAssert(!finished, "a valid attempt runs")
		verifAdvance(int64(3 * time.Second))
		verifQuiesce()
		verifAssert(finished && errors.Is(rerr, ErrPunchTimeout), "and times out without a peer")
		verifCover("timed-out")
	} else {
		verifAssert(finished && rerr != nil, "an invalid attempt is refused")
		verifCover("refused")
	}
	// a packet of that attempt arriving afterwards belongs to QUIC
	inner.in = [][]byte{append([]byte(nil), late...)}
	buf := make([]byte, 2048)
	n, _, err := c.ReadFrom(buf)
	verifAssert(err == nil && n == len(late), "after Respond returned the attempt diverts nothing: its packets reach the reader")
	d := byte(0)
	for i := 0; i < n && i < len(late); i++ {
		d |= buf[i] ^ late[i]
	}
	verifAssert(d == 0, "byte-identical")
	verifAssert(c.AddPunchAttempt("A", ma) == nil, "and the attempt id is free again")
	cancel()
	verifQuiesce()
}
