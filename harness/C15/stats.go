//go:build verif

//verif:pkg extras/trafficlogger
package trafficlogger

import (
	"bytes"
	"encoding/json"
	"io"
	"net/http"
	"net/url"
	"sync"
)

// ---- solver-side models of encoding/json: Marshal snapshots the map it is
// given (the snapshot is what the HTTP client would decode), Decode hands the
// handler the id list the harness posted ----

var zzTrafficSnaps []map[string]trafficStatsEntry
var zzOnlineSnaps []map[string]int
var zzKickBody []string

//verif:model encoding/json.Marshal
func zzModelMarshal(v any) ([]byte, error) {
	switch m := v.(type) {
	case map[string]*trafficStatsEntry:
		snap := map[string]trafficStatsEntry{}
		for k, e := range m {
			snap[k] = *e
		}
		zzTrafficSnaps = append(zzTrafficSnaps, snap)
	case map[string]int:
		snap := map[string]int{}
		for k, n := range m {
			snap[k] = n
		}
		zzOnlineSnaps = append(zzOnlineSnaps, snap)
	}
	return []byte("{}"), nil
}

//verif:model encoding/json.NewDecoder
func zzModelNewDecoder(r io.Reader) *json.Decoder { return &json.Decoder{} }

//verif:model (*encoding/json.Decoder).Decode
func zzModelDecode(d *json.Decoder, v any) error {
	p, ok := v.(*[]string)
	if !ok {
		return nil
	}
	*p = append([]string(nil), zzKickBody...)
	return nil
}

type zzRW struct {
	hdr    http.Header
	status int
	body   bytes.Buffer
}

func (w *zzRW) Header() http.Header {
	if w.hdr == nil {
		w.hdr = http.Header{}
	}
	return w.hdr
}
func (w *zzRW) WriteHeader(c int)             { w.status = c }
func (w *zzRW) Write(b []byte) (int, error)   { return w.body.Write(b) }

func zzGet(s TrafficStatsServer, path, query string) *zzRW {
	w := &zzRW{}
	s.ServeHTTP(w, &http.Request{Method: "GET", URL: &url.URL{Path: path, RawQuery: query}, Header: http.Header{}})
	return w
}

// what a client polling /traffic receives: per-user counters
func zzTraffic(s TrafficStatsServer, clear bool) map[string]trafficStatsEntry {
	q := ""
	if clear {
		q = "clear=1"
	}
	w := zzGet(s, "/traffic", q)
	if verifIsSymbolic() {
		return zzTrafficSnaps[len(zzTrafficSnaps)-1]
	}
	out := map[string]trafficStatsEntry{}
	_ = json.Unmarshal(w.body.Bytes(), &out)
	return out
}

func zzOnline(s TrafficStatsServer) map[string]int {
	w := zzGet(s, "/online", "")
	if verifIsSymbolic() {
		return zzOnlineSnaps[len(zzOnlineSnaps)-1]
	}
	out := map[string]int{}
	_ = json.Unmarshal(w.body.Bytes(), &out)
	return out
}

func zzKick(s TrafficStatsServer, ids []string) {
	zzKickBody = ids
	b, _ := json.Marshal(ids)
	w := &zzRW{}
	s.ServeHTTP(w, &http.Request{Method: "POST", URL: &url.URL{Path: "/kick"}, Header: http.Header{}, Body: io.NopCloser(bytes.NewReader(b))})
}

var zzUsers = []string{"alice", "bob"}

// Sequential histories of traffic reports, polls with and without clear, kicks
// and online/offline notifications for two users: the cleared snapshots plus
// the final one add up to exactly the bytes whose report was allowed; a kicked
// user's next report is refused exactly once; the online listing equals
// connects minus disconnects and has no entry at zero.
//
//verif:harness kind=api unwind=64 bound=ops<=4(quick)/5(thorough),2-users,amounts<2^32
func ZZ_C15_ConservationSequential() {
	s := NewTrafficStatsServer("")
	var allowedTx, allowedRx, seenTx, seenRx [2]uint64
	var kicked [2]bool
	var online [2]int
	ops := 4
	if verifThorough() {
		ops = 5
	}
	for i := 0; i < ops; i++ {
		u := verifChoice("user", 2)
		switch verifChoice("op", 5) {
		case 0:
			tx, rx := verifUint64("tx", 0, 1<<32), verifUint64("rx", 0, 1<<32)
			ok := s.LogTraffic(zzUsers[u], tx, rx)
			verifAssert(ok == !kicked[u], "a report is refused exactly when the user was kicked since their last report")
			if ok {
				allowedTx[u] += tx
				allowedRx[u] += rx
			}
			kicked[u] = false
		case 1:
			snap := zzTraffic(s, true)
			for k := range zzUsers {
				seenTx[k] += snap[zzUsers[k]].Tx
				seenRx[k] += snap[zzUsers[k]].Rx
			}
			verifCover("clear")
		case 2:
			snap := zzTraffic(s, false)
			for k := range zzUsers {
				verifAssert(seenTx[k]+snap[zzUsers[k]].Tx == allowedTx[k] && seenRx[k]+snap[zzUsers[k]].Rx == allowedRx[k], "a snapshot without clear shows exactly what has not been cleared yet")
			}
		case 3:
			zzKick(s, []string{zzUsers[u]})
			kicked[u] = true
			verifCover("kick")
		case 4:
			up := verifBool("online")
			if !up && online[u] == 0 {
				continue // a disconnect is only ever reported for a connection that was reported online
			}
			s.LogOnlineState(zzUsers[u], up)
			if up {
				online[u]++
			} else {
				online[u]--
			}
			on := zzOnline(s)
			for k := range zzUsers {
				n, present := on[zzUsers[k]]
				verifAssert(n == online[k] && present == (online[k] > 0), "online listing = connected authenticated connections, no entry at zero")
			}
		}
	}
	final := zzTraffic(s, true)
	for k := range zzUsers {
		verifAssert(seenTx[k]+final[zzUsers[k]].Tx == allowedTx[k], "tx: cleared snapshots + final snapshot == bytes logged as allowed")
		verifAssert(seenRx[k]+final[zzUsers[k]].Rx == allowedRx[k], "rx: cleared snapshots + final snapshot == bytes logged as allowed")
	}
	verifCover("done")
}

// The same conservation law with reports racing a clearing poll: two reporting
// threads and one polling thread, every interleaving at the lock operations up
// to the pre-emption bound.
//
//verif:harness kind=api replay=native+sched unwind=64 preempt=2 bound=2-reporters-x-2-reports,1-clearing-poller,preemptions<=2
func ZZ_C15_ConservationConcurrent() {
	s := NewTrafficStatsServer("")
	a, b, c, d := verifUint64("a", 0, 1<<32), verifUint64("b", 0, 1<<32), verifUint64("c", 0, 1<<32), verifUint64("d", 0, 1<<32)
	var wg sync.WaitGroup
	var polled map[string]trafficStatsEntry
	wg.Add(3)
	go func() {
		defer wg.Done()
		s.LogTraffic("alice", a, 0)
		s.LogTraffic("alice", b, 0)
	}()
	go func() {
		defer wg.Done()
		s.LogTraffic("alice", c, 0)
		s.LogTraffic("bob", d, 0)
	}()
	go func() {
		defer wg.Done()
		polled = zzTraffic(s, true)
	}()
	wg.Wait()
	final := zzTraffic(s, true)
	verifAssert(polled["alice"].Tx+final["alice"].Tx == a+b+c, "no byte is lost or counted twice when a clearing poll races the reports (alice)")
	verifAssert(polled["bob"].Tx+final["bob"].Tx == d, "no byte is lost or counted twice when a clearing poll races the reports (bob)")
	verifCover("raced")
}
