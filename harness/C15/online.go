//go:build verif

//verif:pkg core/server
package server

import (
	"errors"
	"net"

	"github.com/apernet/quic-go"
)

// the online/offline notifications the stats server counts come from here
type zzOnlineLog struct{ on, off map[string]int }

func (t *zzOnlineLog) LogTraffic(id string, tx, rx uint64) bool { return true }
func (t *zzOnlineLog) LogOnlineState(id string, online bool) {
	if online {
		t.on[id]++
	} else {
		t.off[id]++
	}
}
func (t *zzOnlineLog) TraceStream(stream HyStream, stats *StreamStats) {}
func (t *zzOnlineLog) UntraceStream(stream HyStream)                   {}

type zzGatedAuth struct {
	gate  chan struct{}
	calls int
}

func (a *zzGatedAuth) Authenticate(addr net.Addr, auth string, tx uint64) (bool, string) {
	a.calls++
	<-a.gate
	return auth == "good", "alice"
}

type zzNoOut struct{}

func (zzNoOut) TCP(reqAddr string) (net.Conn, error) { return nil, errors.New("refused") }
func (zzNoOut) UDP(reqAddr string) (UDPConn, error)  { return nil, errors.New("refused") }
func (zzNoOut) CheckUDP(reqAddr string) error         { return nil }

// The online count of the stats API is exact only if the server reports a user
// online exactly once per authenticated connection: however many auth requests
// a client sends on one connection - one after the other or overlapping while
// the authenticator is still busy, with good or bad credentials - there is one
// online notification if any was accepted, none otherwise.
//
//verif:harness kind=api replay=interp unwind=200 preempt=1 bound=3-auth-requests,first-two-overlapping,one-preemption
func ZZ_C15_OnlineOncePerConnection() {
	auth := &zzGatedAuth{gate: make(chan struct{})}
	log := &zzOnlineLog{on: map[string]int{}, off: map[string]int{}}
	cfg := &Config{Authenticator: auth, TrafficLogger: log, EventLogger: &zzEvents{}, DisableUDP: true, Outbound: zzNoOut{}}
	h := newH3sHandler(cfg, &quic.Conn{})
	creds := []string{"good", "bad"}
	c1, c2, c3 := creds[verifChoice("first", 2)], creds[verifChoice("second", 2)], creds[verifChoice("third", 2)]
	w1, w2, w3 := &zzRW{}, &zzRW{}, &zzRW{}
	go h.ServeHTTP(w1, zzAuthRequest("POST", "hysteria", "/auth", c1, "0", true))
	verifQuiesce()
	go h.ServeHTTP(w2, zzAuthRequest("POST", "hysteria", "/auth", c2, "0", true))
	verifQuiesce()
	close(auth.gate)
	verifQuiesce()
	h.ServeHTTP(w3, zzAuthRequest("POST", "hysteria", "/auth", c3, "0", true))
	verifQuiesce()
	any := c1 == "good" || c2 == "good" || c3 == "good"
	if any {
		verifAssert(log.on["alice"] == 1, "one online notification per authenticated connection, however many requests were accepted")
		verifCover("online-once")
	} else {
		verifAssert(log.on["alice"] == 0, "no online notification without an accepted authentication")
		verifCover("never-online")
	}
}
