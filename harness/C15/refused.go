//go:build verif

//verif:pkg core/server
package server

import (
	"io"

	"github.com/apernet/hysteria/core/v2/internal/utils"
	"github.com/apernet/quic-go"
)

// a request hook that takes the first bytes of the stream and hands them back
type zzPutbackHook struct{ n int }

func (k *zzPutbackHook) Check(isUDP bool, reqAddr string) bool { return !isUDP }
func (k *zzPutbackHook) TCP(stream HyStream, reqAddr *string) ([]byte, error) {
	b := make([]byte, k.n)
	m, _ := io.ReadFull(stream, b)
	return b[:m], nil
}
func (k *zzPutbackHook) UDP(data []byte, reqAddr *string) error { return nil }

// Server side of the kick: whichever traffic report of a proxied TCP stream the
// logger refuses (the kick map is consumed by that one refusal: every later
// report is accepted again), the user's connection is closed with 0x107 - also
// when a request hook sniffed the first bytes and put them back.
//
//verif:harness kind=api replay=interp unwind=64 preempt=0 bound=payload:1..3B,hook-putback:none/1/2B,refusal-at-report-0..3-or-never
func ZZ_C15_RefusedReportDisconnects() {
	conn := &quic.Conn{}
	st := &quic.Stream{}
	payload := verifBytes("payload", 1+verifChoice("n", 3))
	zzStream(st).in = append([]byte{0x03, 'a', ':', '1', 0x00}, payload...)
	ob := &zzDialOutbound{conn: &zzTarget{done: make(chan struct{})}}
	ob.conn.final = io.EOF
	ob.conn.writeErrAt = -1
	l := &zzCountLogger{vetoAt: verifChoice("refusedReport", 5) - 1}
	cfg := &Config{Outbound: ob, TrafficLogger: l}
	if k := verifChoice("hookPutback", 3); k > 0 {
		cfg.RequestHook = &zzPutbackHook{n: k}
		verifCover("hooked")
	}
	h := newH3sHandler(cfg, conn)
	h.authenticated = true
	h.authID = "user"
	h.handleTCPRequest(&utils.QStream{Stream: st})
	verifQuiesce()
	verifAssert(zzIsPrefix(ob.conn.got, payload), "the target receives a prefix of the client's bytes, sniffed or not")
	if l.vetoAt >= 0 && l.vetoAt < l.calls {
		verifCover("refused")
		verifAssert(zzConn(conn).closed && zzConn(conn).closeCode == closeErrCodeTrafficLimitReached, "a refused report disconnects that user (0x107)")
	} else {
		verifCover("all-accepted")
		verifAssert(!zzConn(conn).closed, "without a refusal the connection stays up")
		verifAssert(len(ob.conn.got) == len(payload), "and the whole payload is relayed")
	}
}
