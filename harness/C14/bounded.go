//go:build verif

//verif:pkg extras/obfs
package obfs

import (
	"time"
)

// (white-box: inspects the reassembly table and per-source counters; own file
// so that a change of those fields costs only this harness)

// Bounded state: whatever frames two sources send, the per-source counter
// equals the number of pending messages of that source, never exceeds 8, and
// an incomplete message is forgotten once its TTL has passed.
//
//verif:harness kind=api unwind=200 preempt=0 bound=7-pending-prefilled,frames<=3(quick)/4(thorough),2-sources,3-message-ids,0-or-5s-between-frames
func ZZ_C14_BoundedState() {
	sock := &zzInner{}
	verifMapOrder(false) // sweeps and evictions treat every entry alike (oldest deadline wins)
	g := newGeckoPacketConn(sock, 16, 64)
	// source s0 already has 7 pending messages (ids 10..16)
	for id := 10; id < 17; id++ {
		g.acceptChunk(zzAddrS{"s0"}, frameHeader{msgID: uint8(id), chunkIdx: 0, totalChunks: 2}, []byte{1})
	}
	steps := 3
	if verifThorough() {
		steps = 4
	}
	srcs := []string{"s0", "s1"}
	// when each pending message was first seen: its lifetime is fixed then
	born := map[reassemblyKey]int64{}
	for k := range g.reassembly {
		born[k] = verifNow()
	}
	for i := 0; i < steps; i++ {
		if verifChoice("gap", 2) == 1 {
			verifAdvance(int64(5 * time.Second)) // time passes between frames (the sweeper runs on its own ticker)
			verifQuiesce()
		}
		h := frameHeader{msgID: []uint8{10, 30, 31}[verifChoice("msg", 3)], chunkIdx: uint8(verifChoice("idx", 2)), totalChunks: 2}
		a := srcs[verifChoice("src", 2)]
		// what the sweeper dropped meanwhile is forgotten (a later frame starts a new message)
		for k := range born {
			if _, ok := g.reassembly[k]; !ok {
				delete(born, k)
			}
		}
		g.acceptChunk(zzAddrS{a}, h, []byte{byte(i)})
		now := verifNow()
		for k := range born {
			if _, ok := g.reassembly[k]; !ok {
				delete(born, k)
			}
		}
		for k := range g.reassembly {
			if _, ok := born[k]; !ok {
				born[k] = now
			}
		}
		n0, n1 := 0, 0
		for k := range g.reassembly {
			if k.addr == "s0" {
				n0++
			} else {
				n1++
			}
		}
		verifAssert(g.perSource["s0"] == n0 && g.perSource["s1"] == n1, "per-source counters stay in step with the table")
		verifAssert(n0 <= geckoMaxPerSource && n1 <= geckoMaxPerSource, "at most 8 pending messages per source")
		if n0 == geckoMaxPerSource {
			verifCover("cap-reached")
		}
		// no pending message outlives the TTL counted from its first frame, whatever
		// arrived for it since (duplicates and further chunks do not extend it)
		for k, t := range born {
			_ = k
			verifAssert(now-t <= int64(geckoReassemblyTTL)+int64(geckoReassemblyTTL/2), "an incomplete message is forgotten within its TTL (plus one sweep interval) of its first frame")
		}
	}
	// finally: one TTL (and a sweep) after the last frame everything is gone
	verifAdvance(int64(geckoReassemblyTTL) + 1)
	g.gcExpired(time.Now())
	verifAssert(len(g.reassembly) == 0 && len(g.perSource) == 0, "every incomplete message is forgotten after its TTL, counters released")
	verifCover("expired")
}
