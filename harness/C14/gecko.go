//go:build verif

//verif:pkg extras/obfs
package obfs

import (
	"net"
	"time"
)

// two peers behind one NAT: same IP, different ports (and, being fresh
// connections, the same first message id)
var (
	zzSrcMain  net.Addr = &net.UDPAddr{IP: net.IP{192, 0, 2, 7}, Port: 40001}
	zzSrcOther net.Addr = &net.UDPAddr{IP: net.IP{192, 0, 2, 7}, Port: 40002}
)

type zzAddrS struct{ s string }

func (a zzAddrS) Network() string { return "udp" }
func (a zzAddrS) String() string  { return a.s }

type zzPkt struct {
	b    []byte
	from net.Addr
}

// in-memory socket below the gecko layer
type zzInner struct {
	out [][]byte
	in  []zzPkt
}

func (c *zzInner) ReadFrom(p []byte) (int, net.Addr, error) {
	if len(c.in) == 0 {
		return 0, nil, net.ErrClosed
	}
	k := c.in[0]
	c.in = c.in[1:]
	return copy(p, k.b), k.from, nil
}
func (c *zzInner) WriteTo(p []byte, a net.Addr) (int, error) {
	c.out = append(c.out, append([]byte(nil), p...))
	return len(p), nil
}
func (c *zzInner) Close() error                       { return nil }
func (c *zzInner) LocalAddr() net.Addr                { return zzAddrS{"local"} }
func (c *zzInner) SetDeadline(t time.Time) error      { return nil }
func (c *zzInner) SetReadDeadline(t time.Time) error  { return nil }
func (c *zzInner) SetWriteDeadline(t time.Time) error { return nil }

// Padding arithmetic for every chunk length 0..1500, every valid size range
// and every random draw: salt + header + padding + chunk lies in [min, max]
// whenever the chunk can fit at all, and the 16-bit padding field never truncates.
//
//verif:harness kind=api mode=int unwind=64 bound=chunk∈[0,1500],0<min<=max<=2048,any-random-draw
func ZZ_C14_PaddingWithinRange() {
	minP := verifInt("min", 1, 2048)
	maxP := verifInt("max", 1, 2048)
	verifAssume(minP <= maxP)
	g := &geckoPacketConn{minPkt: minP, maxPkt: maxP}
	chunk := verifInt("chunkLen", 0, 1500)
	pad := int(g.randomPadLen(chunk))
	size := smSaltLen + geckoHeaderSize + pad + chunk
	if smSaltLen+geckoHeaderSize+chunk <= maxP {
		verifCover("fits")
		verifAssert(size >= minP && size <= maxP, "an emitted datagram that can fit stays within the configured size range")
	} else {
		verifCover("too-big")
		verifAssert(pad == 0, "a chunk that cannot fit gets no padding")
	}
}

// Frame header encode/decode round trip for every header and payload; decode
// accepts exactly the headers encode can produce.
//
//verif:harness kind=api unwind=64 bound=payload<=3B,pad<=2(symbolic-field)
func ZZ_C14_FrameRoundTrip() {
	h := frameHeader{padLen: verifUint16("pad"), msgID: verifByte("msg"), chunkIdx: verifByte("idx"), totalChunks: verifByte("total")}
	verifAssume(h.padLen <= 2)
	payload := verifBytes("payload", verifChoice("n", 4))
	buf := make([]byte, 16)
	n, err := encodeFrame(h, payload, buf)
	valid := h.totalChunks >= 2 && h.totalChunks <= 8 && h.chunkIdx < h.totalChunks
	verifAssert((err == nil) == valid, "encode accepts exactly chunk counts 2..8 with an index below the count")
	if err != nil {
		verifCover("rejected")
		return
	}
	verifAssert(n == geckoHeaderSize+int(h.padLen)+len(payload), "encoded size = header + padding + payload")
	h2, p2, err := decodeFrame(buf[:n])
	verifAssert(err == nil && h2 == h, "decode inverts encode")
	d := byte(0)
	verifAssert(len(p2) == len(payload), "payload length preserved")
	for i := range payload {
		d |= payload[i] ^ p2[i]
	}
	verifAssert(d == 0, "payload preserved")
	verifCover("roundtrip")
}

func zzSame(a, b []byte) bool {
	if len(a) != len(b) {
		return false
	}
	d := byte(0)
	for i := range a {
		d |= a[i] ^ b[i]
	}
	return d == 0
}

// A long-header packet written through gecko arrives byte-identical for every
// arrival order of its chunks, with a duplicate and with a chunk of another
// message interleaved; a short-header packet passes through unchanged; every
// emitted datagram respects the size range.
//
//verif:harness kind=api unwind=200 preempt=0 bound=packet∈{2,5,9}B,chunks∈{2,3}(quick)/2..5(thorough),every-order+1-duplicate+1-foreign-chunk
func ZZ_C14_ReassembleAnyOrder() {
	txSock := &zzInner{}
	tx := newGeckoPacketConn(txSock, 32, 32) // min == max: padding is determined, sizes still checked
	n := []int{2, 5, 9}[verifChoice("len", 3)]
	p := verifBytes("pkt", n)
	p[0] |= 0x80 // long header
	// the sender's draw of the chunk count is fixed by the harness: 2 or 3 (quick), up to 5 (thorough)
	maxChunks := 3
	if verifThorough() {
		maxChunks = 5
	}
	chunks := 2 + verifChoice("chunks", maxChunks-1)
	verifRandQueue([]byte{0, 0, 0, byte(chunks - 2)})
	k, err := tx.WriteTo(p, zzAddrS{"peer"})
	verifAssert(err == nil && k == n, "WriteTo reports the caller's byte count")
	verifAssert(len(txSock.out) == chunks, "one datagram per chunk")
	for _, d := range txSock.out {
		verifAssert(len(d)+smSaltLen == 32, "every emitted datagram lies in the configured size range")
	}
	// a second message of another sender, sharing the message id space
	other := &zzInner{}
	tx2 := newGeckoPacketConn(other, 32, 32)
	verifRandQueue([]byte{0, 0, 0, 0})
	tx2.WriteTo([]byte{0xc1, 7, 7, 7}, zzAddrS{"peer"})
	rxSock := &zzInner{}
	rx := newGeckoPacketConn(rxSock, 16, 64)
	// arrival order: a permutation of the chunks, one duplicate, one foreign chunk
	idx := make([]int, 0, 5)
	used := make([]bool, len(txSock.out))
	for range txSock.out {
		j := verifChoice("next", len(txSock.out))
		verifAssume(!used[j])
		used[j] = true
		idx = append(idx, j)
	}
	dupAt := verifChoice("dupAt", len(idx))
	foreignAt := verifChoice("foreignAt", len(idx)+1)
	for i, j := range idx {
		if i == foreignAt {
			rxSock.in = append(rxSock.in, zzPkt{other.out[0], zzSrcOther})
		}
		rxSock.in = append(rxSock.in, zzPkt{txSock.out[j], zzSrcMain})
		if i == dupAt && i < len(idx)-1 {
			rxSock.in = append(rxSock.in, zzPkt{txSock.out[j], zzSrcMain})
		}
	}
	short := []byte{0x41, 1, 2}
	rxSock.in = append(rxSock.in, zzPkt{short, zzSrcMain})
	buf := make([]byte, 64)
	m, from, err := rx.ReadFrom(buf)
	verifAssert(err == nil && from.String() == zzSrcMain.String(), "the reassembled packet is delivered with its source")
	verifAssert(zzSame(buf[:m], p), "byte-identical after reassembly, whatever the arrival order")
	m, _, err = rx.ReadFrom(buf)
	verifAssert(err == nil && zzSame(buf[:m], short), "a short-header packet passes through unchanged (and nothing else was emitted before it)")
	verifAssert(len(rx.reassembly) <= 1 && rx.perSource["src"] == 0, "completed messages leave no state behind")
	verifCover("reassembled")
}
