//go:build verif

//verif:pkg core/internal/protocol
package protocol

import (
	"bytes"
	"io"
)

//verif:harness kind=api
func ZZ_T00_Discard() {
	verifAssert(io.Discard != nil, "io.Discard initialised")
	verifAssert(io.EOF != nil, "io.EOF initialised")
	n, err := io.CopyN(io.Discard, bytes.NewReader([]byte{1, 2, 3}), 2)
	verifAssert(n == 2 && err == nil, "CopyN works")
	verifCover("end")
}
