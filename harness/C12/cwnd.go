//go:build verif

//verif:pkg core/internal/congestion/bbr
package bbr

import (
	"time"

	"github.com/apernet/quic-go/congestion"
	"github.com/apernet/quic-go/monotime"
)

type zzClock struct{ t monotime.Time }

func (c *zzClock) Now() monotime.Time { return c.t }

type zzRTT struct{ min time.Duration }

func (r *zzRTT) MinRTT() time.Duration                 { return r.min }
func (r *zzRTT) LatestRTT() time.Duration              { return r.min }
func (r *zzRTT) SmoothedRTT() time.Duration            { return r.min }
func (r *zzRTT) MeanDeviation() time.Duration          { return 0 }
func (r *zzRTT) MaxAckDelay() time.Duration            { return 25 * time.Millisecond }
func (r *zzRTT) PTO(bool) time.Duration                { return 3 * r.min }
func (r *zzRTT) UpdateRTT(sendDelta, ackDelay time.Duration) {}
func (r *zzRTT) SetMaxAckDelay(time.Duration)          {}
func (r *zzRTT) SetInitialRTT(time.Duration)           {}

// The bandwidth-delay product is a pure function of two symbolic quantities
// (a 64-bit product and two divisions); the window lemmas hold for ANY value it
// returns, so it is over-approximated by an arbitrary non-negative byte count.
//
//verif:model github.com/apernet/hysteria/core/v2/internal/congestion/bbr.bdpFromRttAndBandwidth
func zzModelBDP(rtt time.Duration, bandwidth Bandwidth) congestion.ByteCount {
	return congestion.ByteCount(verifInt64("bdp", 0, zzBig))
}

var zzDatagramSizes = []congestion.ByteCount{1200, 1252, 1280, 1350, 1452, 1500, 9000, 65527}

var zzProfiles = []Profile{ProfileStandard, ProfileConservative, ProfileAggressive}

// The invariant every event must re-establish (I):
//   min window = 4 datagrams, initial = 32, max = MaxCongestionWindowPackets datagrams;
//   min <= congestion window <= max;  recovery window >= min.
// From I, GetCongestionWindow() lies between four datagrams and the maximum
// window in every mode and recovery state.
func zzWindowInvariant(b *bbrSender) bool {
	m := b.maxDatagramSize
	return m > 0 &&
		b.minCongestionWindow == minCongestionWindowPackets*m &&
		b.initialCongestionWindow == initialCongestionWindowPackets*m &&
		b.maxCongestionWindow == congestion.MaxCongestionWindowPackets*m &&
		b.minCongestionWindow <= b.congestionWindow && b.congestionWindow <= b.maxCongestionWindow &&
		b.recoveryWindow >= b.minCongestionWindow
}

func zzWindowWithinLimits(b *bbrSender) bool {
	w := b.GetCongestionWindow()
	return w >= 4*b.maxDatagramSize && w <= b.maxCongestionWindow
}

const zzBig = int64(1) << 44

// a sender in an ARBITRARY state satisfying I: the real constructor, then
// every field the window computations read is overwritten with a symbolic value
func zzArbitrarySender(all bool) *bbrSender {
	rtt := &zzRTT{min: time.Duration(verifInt64("rttStatsMin", 0, int64(60*time.Second)))}
	b := NewBbrSender(&zzClock{t: 1}, congestion.InitialPacketSize, ProfileStandard)
	b.SetRTTStatsProvider(rtt)
	// the congestion-window gains of the three profiles (1 in PROBE_RTT/DRAIN)
	g := []float64{1, 1.75, 2, 2.25, 2.5, derivedHighCWNDGain}
	b.congestionWindowGain = g[verifChoice("cwndGain", len(g))]
	sizes := zzDatagramSizes
	if !all {
		sizes = []congestion.ByteCount{1200, 1452, 65527}
	}
	m := sizes[verifChoice("maxDatagramSize", len(sizes))]
	b.maxDatagramSize = m
	b.minCongestionWindow = minCongestionWindowPackets * m
	b.initialCongestionWindow = initialCongestionWindowPackets * m
	b.maxCongestionWindow = congestion.MaxCongestionWindowPackets * m
	b.maxCongestionWindowWithNetworkParametersAdjusted = b.maxCongestionWindow
	b.cwndToCalculateMinPacingRate = congestion.ByteCount(verifInt64("cwndForMinPacing", 0, zzBig))
	b.congestionWindow = congestion.ByteCount(verifInt64("congestionWindow", 0, zzBig))
	b.recoveryWindow = congestion.ByteCount(verifInt64("recoveryWindow", 0, zzBig))
	verifAssume(zzWindowInvariant(b))
	zzHavocModel(b)
	b.recoveryState = bbrRecoveryState(verifInt("recoveryState", 0, 2))
	b.bytesInFlight = congestion.ByteCount(verifInt64("bytesInFlight", 0, zzBig))
	b.lastSentPacket = congestion.PacketNumber(verifInt64("lastSentPacket", -1, zzBig))
	b.endRecoveryAt = congestion.PacketNumber(verifInt64("endRecoveryAt", -1, zzBig))
	b.minRtt = time.Duration(verifInt64("minRtt", 0, int64(60*time.Second)))
	b.maxBandwidth.estimates[0].sample = Bandwidth(verifUint64("bandwidthEstimate", 0, 1<<44))
	b.sampler.totalBytesAcked = congestion.ByteCount(verifInt64("totalBytesAcked", 0, zzBig))
	b.sampler.maxAckHeightTracker.maxAckHeightFilter.estimates[0].sample.extraAcked = congestion.ByteCount(verifInt64("maxAckHeight", 0, zzBig))
	b.enableAckAggregationDuringStartup = verifBool("ackAggregationInStartup")
	b.pacingRate = Bandwidth(verifUint64("pacingRate", 0, 1<<50))
	return b
}

// what the model-update part of an event may change between the steps that
// write the windows: mode, full-bandwidth flag, gains
func zzHavocModel(b *bbrSender) {
	b.mode = bbrMode(verifInt("mode", 0, 3))
	b.isAtFullBandwidth = verifBool("isAtFullBandwidth")
}

// The fields I speaks about have exactly the writers the lemmas below cover.
// (Answered from the SSA of the current tree.)
//
//verif:harness kind=lemma unwind=8 bound=static
func ZZ_C12_WindowWriters() {
	if !verifIsSymbolic() {
		return
	}
	verifAssert(verifWriters("bbrSender", "congestionWindow") == "(*bbrSender).SetMaxDatagramSize,(*bbrSender).calculateCongestionWindow,newBbrSender",
		"the congestion window is written only by the constructor, SetMaxDatagramSize and calculateCongestionWindow: "+verifWriters("bbrSender", "congestionWindow"))
	verifAssert(verifWriters("bbrSender", "recoveryWindow") == "(*bbrSender).SetMaxDatagramSize,(*bbrSender).calculateRecoveryWindow,(*bbrSender).updateRecoveryState,newBbrSender",
		"the recovery window is written only by the constructor, SetMaxDatagramSize, updateRecoveryState and calculateRecoveryWindow: "+verifWriters("bbrSender", "recoveryWindow"))
	verifAssert(verifWriters("bbrSender", "recoveryState") == "(*bbrSender).updateRecoveryState,newBbrSender",
		"the recovery state is written only by the constructor and updateRecoveryState: "+verifWriters("bbrSender", "recoveryState"))
	for _, f := range []string{"minCongestionWindow", "maxCongestionWindow", "initialCongestionWindow", "maxDatagramSize"} {
		verifAssert(verifWriters("bbrSender", f) == "(*bbrSender).rescalePacketSizedWindows,newBbrSender",
			"the window limits and the datagram size are written only by the constructor and rescalePacketSizedWindows: "+f+": "+verifWriters("bbrSender", f))
	}
	verifCover("writers")
}

// Base case: a freshly built sender satisfies I, for each profile and both
// initial datagram sizes hysteria passes.
//
//verif:harness kind=lemma unwind=64 bound=3-profiles,2-initial-sizes
func ZZ_C12_WindowInitial() {
	sz := []congestion.ByteCount{congestion.InitialPacketSize, congestion.MinInitialPacketSize}[verifChoice("initialSize", 2)]
	b := NewBbrSender(&zzClock{t: 1}, sz, zzProfiles[verifChoice("profile", 3)])
	b.SetRTTStatsProvider(&zzRTT{})
	verifAssert(zzWindowInvariant(b), "a new sender satisfies the window invariant")
	verifAssert(zzWindowWithinLimits(b), "and its window is within the limits")
	verifAssert(b.bandwidthForPacer() >= minBps, "and its pacing bandwidth is at least 64 KB/s")
	verifCover("initial")
}

// Inductive step for an ack/loss event: whatever the sampler reported (bytes
// acked, lost, excess) and whatever the model update did to mode and gains,
// the window-writing steps of OnCongestionEventEx, in its order, re-establish I
// and leave the congestion window within its limits.
//
//verif:harness kind=lemma unwind=64 fp=abstract bound=one-event-from-arbitrary-state,3(quick)/8(thorough)-datagram-sizes,6-gains,bdp-over-approximated
func ZZ_C12_WindowAfterCongestionEvent() {
	b := zzArbitrarySender(verifThorough())
	acked := congestion.ByteCount(verifInt64("bytesAcked", 0, zzBig))
	lost := congestion.ByteCount(verifInt64("bytesLost", 0, zzBig))
	excess := congestion.ByteCount(verifInt64("excessAcked", 0, zzBig))
	if verifBool("someAcked") {
		b.updateRecoveryState(congestion.PacketNumber(verifInt64("lastAcked", 0, zzBig)), verifBool("hasLosses"), verifBool("isRoundStart"))
	}
	zzHavocModel(b)
	b.bytesInFlight = congestion.ByteCount(verifInt64("bytesInFlightAfter", 0, zzBig))
	b.calculateCongestionWindow(acked, excess)
	b.calculateRecoveryWindow(acked, lost)
	verifAssert(zzWindowInvariant(b), "an ack/loss event re-establishes the window invariant")
	verifAssert(zzWindowWithinLimits(b), "the congestion window stays between four datagrams and the maximum window")
	verifCover("event")
}

// Inductive step for a datagram-size increase.
//
//verif:harness kind=lemma unwind=64 bound=one-increase-from-arbitrary-state,8-datagram-sizes
func ZZ_C12_WindowAfterDatagramSizeIncrease() {
	b := zzArbitrarySender(true)
	s := zzDatagramSizes[verifChoice("newSize", len(zzDatagramSizes))]
	if s < b.maxDatagramSize {
		return
	}
	b.SetMaxDatagramSize(s)
	verifAssert(b.maxDatagramSize == s, "the new size is adopted")
	verifAssert(zzWindowInvariant(b), "a datagram-size increase re-establishes the window invariant")
	verifAssert(zzWindowWithinLimits(b), "the congestion window stays between four datagrams and the maximum window")
	verifCover("increase")
}

// The pacer never sees less than 64 KB/s, from any state.
//
//verif:harness kind=lemma unwind=64 fp=abstract bound=arbitrary-state
func ZZ_C12_PacerBandwidthFloor() {
	b := zzArbitrarySender(false)
	b.pacingGain = []float64{1, 0.75, 1.25, 2.25, 3, defaultHighGain, 1 / defaultHighGain}[verifChoice("pacingGain", 7)]
	verifAssert(b.bandwidthForPacer() >= minBps, "the pacing bandwidth is at least 64 KB/s")
	if b.pacingRate == 0 {
		verifCover("no-rate-yet")
	} else {
		verifCover("rate")
	}
}
