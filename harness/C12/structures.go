//go:build verif

//verif:pkg core/internal/congestion/bbr
package bbr

import (
	"github.com/apernet/quic-go/congestion"
)

// ---------------------------------------------------------------------------
// Ring buffer and packet-number-indexed queue: one operation from an ARBITRARY
// valid state (capacity 1, 2 or 4; arbitrary head position, length and
// present-flags). Each lemma assumes the representation invariant, runs one
// real operation with arbitrary arguments and asserts the invariant and the
// operation's contract afterwards - so histories of any length over these
// capacities are covered by induction, and no index error (panic) is possible.
// ---------------------------------------------------------------------------

type zzEntry = connectionStateOnSentPacket

// an arbitrary ring buffer of the chosen capacity: n elements starting at head
func zzArbitraryRing(present []bool) (r RingBuffer[entryWrapper[zzEntry]], n int) {
	c := []int{1, 2, 4}[verifChoice("capacity", 3)]
	r.ring = make([]entryWrapper[zzEntry], c)
	head := verifChoice("head", c)
	n = verifChoice("len", c+1)
	r.headPos = head
	r.tailPos = (head + n) % c
	r.full = n == c
	for i := 0; i < n; i++ {
		p := verifBool("present")
		present[i] = p
		r.ring[(head+i)%c] = entryWrapper[zzEntry]{present: p, entry: zzEntry{size: congestion.ByteCount(100 + i)}}
	}
	return r, n
}

// the queue's representation invariant
func zzQueueValid(q *packetNumberIndexedQueue[zzEntry]) bool {
	n := q.entries.Len()
	cnt := 0
	for i := 0; i < n; i++ {
		if q.entries.Offset(i).present {
			cnt++
		}
	}
	if cnt != q.numberOfPresentEntries {
		return false
	}
	if n == 0 {
		return q.firstPacket == invalidPacketNumber
	}
	// non-empty: anchored at a valid packet number, first slot present
	return q.firstPacket != invalidPacketNumber && q.entries.Front().present
}

func zzArbitraryQueue() (*packetNumberIndexedQueue[zzEntry], []bool, int) {
	present := make([]bool, 4)
	r, n := zzArbitraryRing(present)
	q := &packetNumberIndexedQueue[zzEntry]{entries: r, firstPacket: invalidPacketNumber}
	for i := 0; i < n; i++ {
		if present[i] {
			q.numberOfPresentEntries++
		}
	}
	if n > 0 {
		q.firstPacket = congestion.PacketNumber(verifInt64("firstPacket", 0, 1<<40))
		verifAssume(present[0])
	}
	return q, present, n
}

//verif:harness kind=lemma unwind=64 bound=capacity<=4,any-head,any-length,any-present-flags,gap<=3
func ZZ_C12_QueueEmplace() {
	q, _, n := zzArbitraryQueue()
	verifAssert(zzQueueValid(q), "the constructed state satisfies the representation invariant")
	first := q.firstPacket
	pn := congestion.PacketNumber(verifInt64("packetNumber", -1, 1<<41))
	if n > 0 {
		verifAssume(int64(pn) <= int64(first)+int64(n)+3) // gaps of at most 3 skipped numbers
	}
	e := zzEntry{size: 7}
	before := q.EntrySlotsUsed()
	last := q.LastPacket()
	ok := q.Emplace(pn, &e)
	verifAssert(zzQueueValid(q), "Emplace preserves the representation invariant")
	if pn == invalidPacketNumber || (n > 0 && pn <= last) {
		verifAssert(!ok && q.EntrySlotsUsed() == before, "invalid and out-of-order numbers are refused and change nothing")
		verifCover("refused")
		return
	}
	verifAssert(ok, "an in-order number is stored")
	verifAssert(q.LastPacket() == pn && q.GetEntry(pn) != nil && q.GetEntry(pn).size == 7, "and can be retrieved")
	if n == 0 {
		verifAssert(q.EntrySlotsUsed() == 1 && q.FirstPacket() == pn, "an empty queue restarts at the new number")
	} else {
		verifAssert(q.FirstPacket() == first && q.EntrySlotsUsed() == int(pn-first)+1, "slots used equal the span from the first to the last packet number")
	}
	verifCover("stored")
}

//verif:harness kind=lemma unwind=64 bound=capacity<=4,any-head,any-length,any-present-flags
func ZZ_C12_QueueRemove() {
	q, present, n := zzArbitraryQueue()
	first := q.firstPacket
	pn := congestion.PacketNumber(verifInt64("packetNumber", -1, 1<<41))
	cntBefore := q.NumberOfPresentEntries()
	was := q.GetEntry(pn) != nil
	inRange := n > 0 && pn >= first && int64(pn-first) < int64(n)
	if inRange {
		verifAssert(was == present[int(pn-first)], "GetEntry finds exactly the present entries")
	} else {
		verifAssert(!was, "GetEntry finds nothing outside the stored range")
	}
	called := 0
	ok := q.Remove(pn, func(zzEntry) { called++ })
	verifAssert(ok == was, "Remove succeeds exactly for present entries")
	verifAssert(zzQueueValid(q), "Remove preserves the representation invariant")
	if ok {
		verifAssert(called == 1 && q.NumberOfPresentEntries() == cntBefore-1 && q.GetEntry(pn) == nil, "the entry is handed to the callback once and is gone")
		verifCover("removed")
	} else {
		verifAssert(called == 0 && q.NumberOfPresentEntries() == cntBefore, "nothing else changes")
		verifCover("absent")
	}
}

//verif:harness kind=lemma unwind=64 bound=capacity<=4,any-head,any-length,any-present-flags
func ZZ_C12_QueueRemoveUpTo() {
	q, present, n := zzArbitraryQueue()
	first := q.firstPacket
	pn := congestion.PacketNumber(verifInt64("upTo", -1, 1<<41))
	q.RemoveUpTo(pn)
	verifAssert(zzQueueValid(q), "RemoveUpTo preserves the representation invariant")
	if n > 0 {
		// every entry below pn is gone, every present entry at or above stays
		for i := 0; i < n; i++ {
			p := first + congestion.PacketNumber(i)
			if p < pn {
				verifAssert(q.GetEntry(p) == nil, "entries below the bound are removed")
			} else {
				verifAssert((q.GetEntry(p) != nil) == present[i], "entries at or above the bound are kept")
			}
		}
		if !q.IsEmpty() {
			verifAssert(q.FirstPacket() >= pn || q.FirstPacket() >= first, "the front only moves forward")
			verifAssert(q.EntrySlotsUsed() <= n, "slots are only released")
			verifCover("kept-some")
		} else {
			verifAssert(q.EntrySlotsUsed() == 0, "an emptied queue holds no slots")
			verifCover("emptied")
		}
	}
}

// Ring buffer on its own: PushBack (growing when full) and PopFront keep order.
//
//verif:harness kind=lemma unwind=64 bound=capacity<=4,any-head,any-length
func ZZ_C12_RingPushPop() {
	present := make([]bool, 4)
	r, n := zzArbitraryRing(present)
	verifAssert(r.Len() == n && r.Empty() == (n == 0), "Len and Empty describe the constructed state")
	if verifBool("push") {
		r.PushBack(entryWrapper[zzEntry]{present: true, entry: zzEntry{size: 999}})
		verifAssert(r.Len() == n+1, "PushBack adds one element (growing a full buffer)")
		verifAssert(r.Back().entry.size == 999, "at the back")
		for i := 0; i < n; i++ {
			verifAssert(r.Offset(i).entry.size == congestion.ByteCount(100+i), "the other elements keep their order")
		}
		verifCover("pushed")
	} else if n > 0 {
		e := r.PopFront()
		verifAssert(e.entry.size == 100 && r.Len() == n-1, "PopFront removes the oldest element")
		for i := 0; i < n-1; i++ {
			verifAssert(r.Offset(i).entry.size == congestion.ByteCount(101+i), "the other elements keep their order")
		}
		verifCover("popped")
	}
}

// Windowed max filter: from an arbitrary ordered state one Update keeps the
// estimates ordered (best >= second >= third, times non-decreasing) and the
// best estimate is never below the new sample.
//
//verif:harness kind=lemma unwind=16 bound=one-update-from-arbitrary-ordered-state
func ZZ_C12_WindowedMaxFilter() {
	f := NewWindowedFilter(roundTripCount(bandwidthWindowSize), MaxFilter[Bandwidth])
	for i := 0; i < 3; i++ {
		f.estimates[i].sample = Bandwidth(verifUint64("sample", 0, 1<<50))
		f.estimates[i].time = roundTripCount(verifUint64("time", 0, 1<<40))
	}
	e := f.estimates
	verifAssume(e[0].sample >= e[1].sample && e[1].sample >= e[2].sample)
	verifAssume(e[0].time <= e[1].time && e[1].time <= e[2].time)
	s := Bandwidth(verifUint64("newSample", 0, 1<<50))
	t := roundTripCount(verifUint64("newTime", 0, 1<<40))
	verifAssume(t >= e[2].time)
	f.Update(s, t)
	e = f.estimates
	verifAssert(e[0].sample >= e[1].sample && e[1].sample >= e[2].sample, "estimates stay ordered")
	verifAssert(e[0].time <= e[1].time && e[1].time <= e[2].time, "their times stay ordered")
	verifAssert(f.GetBest() >= s, "the best estimate is at least the newest sample")
	verifAssert(e[2].time <= t, "no estimate is from the future")
	verifCover("updated")
}
