//go:build verif

//verif:pkg core/internal/congestion/bbr
package bbr

import (
	"time"

	"github.com/apernet/quic-go/congestion"
	"github.com/apernet/quic-go/monotime"
)

// The QUIC side of the interface, as quic-go's sent-packet handler drives it:
// OnPacketSent with the bytes in flight including the new packet;
// OnCongestionEventEx with the bytes in flight before the event, acked and
// lost packets in ascending packet-number order, at least one of them.
type zzPkt struct {
	pn   congestion.PacketNumber
	size congestion.ByteCount
}

type zzQuic struct {
	b        *bbrSender
	clock    *zzClock
	rtt      *zzRTT
	out      []zzPkt // outstanding, ascending
	inflight congestion.ByteCount
	nextPN   congestion.PacketNumber
	mds      congestion.ByteCount
	floor    congestion.PacketNumber // everything below has been pruned from the sampler
	firstPN  congestion.PacketNumber
	events   int
}

func zzNewQuic(profile Profile) *zzQuic {
	q := &zzQuic{clock: &zzClock{t: monotime.Time(1_000_000_000)}, rtt: &zzRTT{}, mds: congestion.InitialPacketSize, firstPN: -1}
	q.b = NewBbrSender(q.clock, q.mds, profile)
	q.b.SetRTTStatsProvider(q.rtt)
	return q
}

func (q *zzQuic) advance(d time.Duration) { q.clock.t = q.clock.t.Add(d) }

func (q *zzQuic) send(size congestion.ByteCount, gap int) {
	q.nextPN += congestion.PacketNumber(gap)
	pn := q.nextPN
	q.nextPN++
	if q.firstPN < 0 {
		q.firstPN = pn
	}
	q.inflight += size
	q.b.OnPacketSent(q.clock.t, q.inflight, pn, size, true)
	q.out = append(q.out, zzPkt{pn, size})
	q.check("a packet was sent")
}

// one ack/loss event over the k oldest outstanding packets; lost[i] says which of them are declared lost
func (q *zzQuic) ackLoss(k int, lost []bool) {
	if k > len(q.out) {
		k = len(q.out)
	}
	if k == 0 {
		return
	}
	var acked []congestion.AckedPacketInfo
	var lostPkts []congestion.LostPacketInfo
	prior := q.inflight
	for i := 0; i < k; i++ {
		p := q.out[i]
		if i < len(lost) && lost[i] {
			lostPkts = append(lostPkts, congestion.LostPacketInfo{PacketNumber: p.pn, BytesLost: p.size})
		} else {
			acked = append(acked, congestion.AckedPacketInfo{PacketNumber: p.pn, BytesAcked: p.size})
		}
		q.inflight -= p.size
	}
	q.out = q.out[k:]
	q.b.OnCongestionEventEx(prior, q.clock.t, acked, lostPkts)
	var least congestion.PacketNumber
	if len(acked) > 0 {
		least = acked[len(acked)-1].PacketNumber - 2
	} else {
		least = lostPkts[len(lostPkts)-1].PacketNumber + 1
	}
	if least > q.floor {
		q.floor = least
	}
	q.events++
	q.check("an ack/loss event was processed")
}

func (q *zzQuic) raiseMTU(s congestion.ByteCount) {
	q.mds = s
	q.b.SetMaxDatagramSize(s)
	q.check("the datagram size was raised")
}

// the observable outputs, after every event
func (q *zzQuic) check(when string) {
	b := q.b
	w := b.GetCongestionWindow()
	verifAssert(w >= 4*q.mds, "the congestion window is at least four datagrams")
	verifAssert(w <= congestion.MaxCongestionWindowPackets*q.mds, "the congestion window is at most the maximum window")
	verifAssert(b.bandwidthForPacer() >= minBps, "the pacing bandwidth is at least 64 KB/s")
	// bookkeeping: one slot per packet number between the pruning floor (or the
	// first packet ever sent) and the last packet sent
	if q.firstPN >= 0 {
		lo := q.firstPN
		if q.floor > lo {
			lo = q.floor
		}
		span := int(q.nextPN - lo)
		if span < 0 {
			span = 0
		}
		verifAssert(b.sampler.connectionStateMap.EntrySlotsUsed() <= span, "per-packet bookkeeping is bounded by the packet numbers not yet pruned")
	}
}

// a loss-free path of fixed capacity, driven concretely: `rounds` round trips
// of `perRound` full-size packets, acknowledged one RTT after they were sent
func (q *zzQuic) drive(rounds, perRound int, rtt time.Duration) {
	q.rtt.min = rtt
	for r := 0; r < rounds; r++ {
		for i := 0; i < perRound; i++ {
			q.send(q.mds, 0)
			q.advance(rtt / time.Duration(4*perRound))
		}
		q.advance(rtt)
		for len(q.out) > 0 {
			q.ackLoss(2, nil)
			q.advance(rtt / time.Duration(4*perRound))
		}
	}
}

// reachable starting points, produced by driving the real sender concretely
func (q *zzQuic) prefix(which int) {
	switch which {
	case 0: // fresh connection
	case 1: // in STARTUP, a few round trips in
		q.drive(2, 4, 40*time.Millisecond)
	case 2: // past STARTUP (bandwidth stopped growing): DRAIN/PROBE_BW
		q.drive(6, 4, 40*time.Millisecond)
	case 3: // past STARTUP, then a loss: in recovery with a handful of packets in flight
		q.drive(6, 4, 40*time.Millisecond)
		for i := 0; i < 5; i++ {
			q.send(q.mds, 0)
			q.advance(time.Millisecond)
		}
		q.advance(40 * time.Millisecond)
		q.ackLoss(2, []bool{true, false})
	case 4: // idle for longer than the min-RTT expiry: PROBE_RTT on the next round
		q.drive(6, 4, 40*time.Millisecond)
		q.advance(11 * time.Second)
		q.drive(1, 4, 40*time.Millisecond)
	}
}

func (q *zzQuic) symbolicEvent(i int) {
	switch verifChoice("event", 3) {
	case 0: // send, possibly after skipped packet numbers, possibly small
		q.advance(time.Duration(verifInt64("sendDelay", 0, int64(2*time.Second))))
		size := congestion.ByteCount(verifInt64("size", 1, int64(q.mds)))
		q.send(size, verifChoice("gap", 3))
		verifCover("sent")
	case 1: // ack/loss over the 1..3 oldest outstanding packets, any pattern
		if len(q.out) == 0 {
			return
		}
		q.advance(time.Duration(verifInt64("ackDelay", 0, int64(2*time.Second))))
		k := 1 + verifChoice("packets", 3)
		lost := []bool{verifChoice("lost0", 2) == 1, verifChoice("lost1", 2) == 1, verifChoice("lost2", 2) == 1}
		q.ackLoss(k, lost)
		verifCover("acked-or-lost")
	case 2: // MTU discovery raises the datagram size
		sizes := []congestion.ByteCount{1300, 1452, 9000}
		s := sizes[verifChoice("newSize", len(sizes))]
		if s <= q.mds {
			return
		}
		q.raiseMTU(s)
		verifCover("mtu")
	}
}

// From each reachable starting point (fresh; STARTUP; past STARTUP; in
// recovery with few packets in flight; after a long idle period) and for each
// profile: any two (quick) / three (thorough) further events with symbolic
// sizes, delays, packet-number gaps and ack/loss patterns keep the outputs sane
// and never panic.
//
//verif:harness kind=api fp=abstract mode=int unwind=400 preempt=0 bound=5-concrete-prefixes,3-profiles,symbolic-suffix<=2(quick)/3(thorough)-events,sizes<=mds,delays<=2s,gaps<=2
func ZZ_C12_EventsFromReachableStates() {
	q := zzNewQuic(zzProfiles[verifChoice("profile", 3)])
	q.prefix(verifChoice("prefix", 5))
	// which starting points were actually reached (vacuity guard)
	if q.b.isAtFullBandwidth {
		verifCover("past-startup")
	}
	if q.b.InRecovery() {
		verifCover("in-recovery")
	}
	if q.b.mode == bbrModeProbeRtt {
		verifCover("probe-rtt")
	}
	if q.b.mode == bbrModeProbeBw {
		verifCover("probe-bw")
	}
	n := 2
	if verifThorough() {
		n = 3
	}
	for i := 0; i < n; i++ {
		q.symbolicEvent(i)
	}
	verifCover("done")
}
