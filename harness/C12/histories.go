//go:build verif

//verif:pkg core/internal/congestion/bbr
package bbr

import (
	"strconv"
	"time"

	"github.com/apernet/quic-go/congestion"
	"github.com/apernet/quic-go/monotime"
)

// The QUIC side of the interface, as quic-go's sent-packet handler drives it:
// OnPacketSent with the bytes in flight including the new packet;
// OnCongestionEventEx with the bytes in flight before the event, acked and
// lost packets in ascending packet-number order, at least one of them.
// PROBE_BW starts its gain cycle at a random offset; the draw is an explicit
// choice here so that the concretely driven prefixes stay concrete and every
// offset is explored.
//
//verif:model math/rand.Int31n
func zzModelInt31n(n int32) int32 {
	if !zzGainDrawn {
		zzGainDrawn = true
		zzGainDraw = int32(verifChoice("gainCycleOffsetDraw", 7))
	}
	return zzGainDraw % n // every offset once; re-entries of PROBE_BW on the same path draw the same
}

var (
	zzGainDrawn bool
	zzGainDraw  int32
)

type zzPkt struct {
	pn   congestion.PacketNumber
	size congestion.ByteCount
}

type zzQuic struct {
	b        *bbrSender
	clock    *zzClock
	rtt      *zzRTT
	out      []zzPkt // outstanding, ascending
	inflight congestion.ByteCount
	nextPN   congestion.PacketNumber
	mds      congestion.ByteCount
	due      []monotime.Time // when each outstanding packet's acknowledgement arrives (simulator)
	linkFree monotime.Time   // when the bottleneck is free again (simulator)
	maxPkts  congestion.ByteCount    // the sender's maximum window, in datagrams
	floor    congestion.PacketNumber // everything below has been pruned from the sampler
	firstPN  congestion.PacketNumber
	events   int
}

func zzNewQuic(profile Profile) *zzQuic {
	q := &zzQuic{clock: &zzClock{t: monotime.Time(1_000_000_000)}, rtt: &zzRTT{}, mds: congestion.InitialPacketSize, firstPN: -1}
	q.b = NewBbrSender(q.clock, q.mds, profile)
	q.maxPkts = congestion.MaxCongestionWindowPackets
	q.b.SetRTTStatsProvider(q.rtt)
	return q
}

func (q *zzQuic) advance(d time.Duration) { q.clock.t = q.clock.t.Add(d) }

func (q *zzQuic) send(size congestion.ByteCount, gap int) {
	q.nextPN += congestion.PacketNumber(gap)
	pn := q.nextPN
	q.nextPN++
	if q.firstPN < 0 {
		q.firstPN = pn
	}
	q.inflight += size
	q.b.OnPacketSent(q.clock.t, q.inflight, pn, size, true)
	q.out = append(q.out, zzPkt{pn, size})
	q.check("a packet was sent")
}

// one ack/loss event over the k oldest outstanding packets; lost[i] says which of them are declared lost
func (q *zzQuic) ackLoss(k int, lost []bool) {
	if k > len(q.out) {
		k = len(q.out)
	}
	if k == 0 {
		return
	}
	var acked []congestion.AckedPacketInfo
	var lostPkts []congestion.LostPacketInfo
	prior := q.inflight
	for i := 0; i < k; i++ {
		p := q.out[i]
		if i < len(lost) && lost[i] {
			lostPkts = append(lostPkts, congestion.LostPacketInfo{PacketNumber: p.pn, BytesLost: p.size})
		} else {
			acked = append(acked, congestion.AckedPacketInfo{PacketNumber: p.pn, BytesAcked: p.size})
		}
		q.inflight -= p.size
	}
	q.out = q.out[k:]
	q.b.OnCongestionEventEx(prior, q.clock.t, acked, lostPkts)
	var least congestion.PacketNumber
	if len(acked) > 0 {
		least = acked[len(acked)-1].PacketNumber - 2
	} else {
		least = lostPkts[len(lostPkts)-1].PacketNumber + 1
	}
	if least > q.floor {
		q.floor = least
	}
	q.events++
	q.check("an ack/loss event was processed")
}

func (q *zzQuic) raiseMTU(s congestion.ByteCount) {
	q.mds = s
	q.b.SetMaxDatagramSize(s)
	q.check("the datagram size was raised")
}

// the observable outputs, after every event
func (q *zzQuic) check(when string) {
	b := q.b
	w := b.GetCongestionWindow()
	verifAssert(w >= 4*q.mds, "the congestion window is at least four datagrams")
	verifAssert(w <= q.maxPkts*q.mds, "the congestion window is at most the maximum window")
	verifAssert(b.bandwidthForPacer() >= minBps, "the pacing bandwidth is at least 64 KB/s")
	// bookkeeping: one slot per packet number between the pruning floor (or the
	// first packet ever sent) and the last packet sent
	if q.firstPN >= 0 {
		lo := q.firstPN
		if q.floor > lo {
			lo = q.floor
		}
		span := int(q.nextPN - lo)
		if span < 0 {
			span = 0
		}
		verifAssert(b.sampler.connectionStateMap.EntrySlotsUsed() <= span, "per-packet bookkeeping is bounded by the packet numbers not yet pruned")
	}
}

// A loss-free bottleneck of fixed capacity, simulated concretely: the sender
// transmits whenever its congestion window allows (ack clocked), packets are
// serialised at `perRTT` full-size packets per round-trip time and acknowledged
// one RTT later, one ack event per packet. Runs until `acks` acknowledgements
// were delivered; with send=false nothing new is sent (an application-limited
// phase) and the flight drains.
func (q *zzQuic) simulate(acks int, perRTT int, rtt time.Duration, send bool) {
	q.rtt.min = rtt
	ser := rtt / time.Duration(perRTT)
	for n := 0; n < acks; n++ {
		if send {
			for q.inflight+q.mds <= q.b.GetCongestionWindow() && len(q.out) < 64 {
				dep := q.clock.t
				if q.linkFree > dep {
					dep = q.linkFree
				}
				q.linkFree = dep.Add(ser)
				q.due = append(q.due, q.linkFree.Add(rtt))
				q.send(q.mds, 0)
				q.advance(10 * time.Microsecond)
			}
		}
		if len(q.out) == 0 {
			return
		}
		if q.due[0] > q.clock.t {
			q.clock.t = q.due[0]
		}
		q.due = q.due[1:]
		q.ackLoss(1, nil)
	}
}

// reachable starting points, produced by driving the real sender concretely
func (q *zzQuic) prefix(which int) {
	const perRTT = 8
	const rtt = 40 * time.Millisecond
	switch which {
	case 0: // fresh connection
	case 1: // in STARTUP, two round trips in
		q.simulate(48, perRTT, rtt, true)
	case 2: // bandwidth stopped growing: past STARTUP (DRAIN / PROBE_BW)
		q.simulate(400, perRTT, rtt, true)
	case 3: // past STARTUP, the application pauses, the flight drains to five packets, then a loss: recovery with few packets in flight
		q.simulate(400, perRTT, rtt, true)
		for len(q.out) > 5 {
			q.simulate(1, perRTT, rtt, false)
		}
		q.due = q.due[3:]
		q.advance(rtt)
		q.ackLoss(3, []bool{true, true, false})
	case 4: // idle for longer than the min-RTT expiry, then traffic again: PROBE_RTT
		q.simulate(400, perRTT, rtt, true)
		for len(q.out) > 0 {
			q.simulate(1, perRTT, rtt, false)
		}
		q.advance(11 * time.Second)
		q.simulate(24, perRTT, rtt, true)
	case 7: // a sender built with a small maximum window (40 datagrams), in STARTUP, one datagram short of it
		q.b = newBbrSender(q.clock, q.mds, initialCongestionWindowPackets*q.mds, 40*q.mds, q.b.profile)
		q.b.SetRTTStatsProvider(q.rtt)
		q.maxPkts = 40
		q.simulate(7, perRTT, rtt, true)
	case 6: // a slow path (one packet per 100 ms): the measured rate is below the pacer's floor
		q.simulate(520, 1, 100*time.Millisecond, true)
	case 5: // a loss at full flight: recovery (CONSERVATION, then GROWTH after a round)
		q.simulate(400, perRTT, rtt, true)
		q.due = q.due[4:]
		q.advance(rtt)
		q.ackLoss(4, []bool{true, false, false, false})
		q.simulate(12, perRTT, rtt, true)
	}
}

func (q *zzQuic) symbolicEvent(i int) {
	switch verifChoice("event", 3) {
	case 0: // send, possibly after skipped packet numbers, possibly small
		q.advance(time.Duration(verifInt64("sendDelay", 0, int64(2*time.Second))))
		size := congestion.ByteCount(verifInt64("size", 1, int64(q.mds)))
		q.send(size, verifChoice("gap", 3))
		verifCover("sent")
	case 1: // ack/loss over the 1..3 oldest outstanding packets, any pattern
		if len(q.out) == 0 {
			return
		}
		q.advance(time.Duration(verifInt64("ackDelay", 0, int64(2*time.Second))))
		k := 1 + verifChoice("packets", 3)
		lost := make([]bool, k)
		for j := range lost {
			lost[j] = verifChoice("lost", 2) == 1
		}
		q.ackLoss(k, lost)
		verifCover("acked-or-lost")
	case 2: // MTU discovery raises the datagram size
		sizes := []congestion.ByteCount{1300, 1452, 9000}
		s := sizes[verifChoice("newSize", len(sizes))]
		if s <= q.mds {
			return
		}
		q.raiseMTU(s)
		verifCover("mtu")
	}
}

// From each reachable starting point (fresh; STARTUP; past STARTUP; in
// recovery with few packets in flight; after a long idle period): any further
// event (quick: standard profile; thorough: each profile) with
// symbolic size, delay, packet-number gap and ack/loss pattern keeps the
// outputs sane and never panics. The starting points are produced by driving
// the real sender concretely, so every state explored is reachable.
//
//verif:harness kind=api replay=interp fp=abstract mode=int nomodel=bdpFromRttAndBandwidth unwind=400 preempt=0 bound=prefixes-0..3,every-gain-cycle-offset,standard(quick)/3-profiles(thorough),symbolic-suffix=1-event,sizes<=mds,delays<=2s,gaps<=2
func ZZ_C12_EventsFromReachableStates() {
	q := zzReach(0)
	// which starting points were actually reached (vacuity guard)
	if q.b.isAtFullBandwidth {
		verifCover("past-startup")
	}
	if q.b.InRecovery() {
		verifCover("in-recovery")
	}
	if q.b.mode == bbrModeProbeBw {
		verifCover("probe-bw")
	}
	if q.b.mode == bbrModeStartup && len(q.out) > 0 {
		verifCover("in-startup")
	}
	zzSuffix(q)
}

// The second half of the starting points (PROBE_RTT after idling, recovery at
// full flight, slow path, small maximum window).
//
//verif:harness kind=api replay=interp fp=abstract mode=int nomodel=bdpFromRttAndBandwidth unwind=400 preempt=0 bound=prefixes-4..7,every-gain-cycle-offset,standard(quick)/3-profiles(thorough),symbolic-suffix=1-event,sizes<=mds,delays<=2s,gaps<=2
func ZZ_C12_EventsFromReachableStatesB() {
	q := zzReach(4)
	if q.b.mode == bbrModeProbeRtt {
		verifCover("probe-rtt")
	}
	if q.b.InRecovery() {
		verifCover("in-recovery-at-full-flight")
	}
	if q.maxPkts == 40 && q.b.GetCongestionWindow() >= 38*q.mds && q.b.mode == bbrModeStartup {
		verifCover("near-maximum-in-startup")
	}
	if q.b.pacingRate != 0 && q.b.pacingRate < Bandwidth(8*minBps) {
		verifCover("rate-below-floor")
	}
	zzSuffix(q)
}

func zzReach(first int) *zzQuic {
	prof := ProfileStandard
	if verifThorough() {
		prof = zzProfiles[verifChoice("profile", 3)]
	}
	q := zzNewQuic(prof)
	q.prefix(first + verifChoice("prefix", 4))
	return q
}

func zzSuffix(q *zzQuic) {
	n := 1 // two symbolic events for three profiles do not finish within the thorough budget
	for i := 0; i < n; i++ {
		q.symbolicEvent(i)
	}
	verifCover("done")
}

//verif:harness kind=api fp=abstract mode=int nomodel=bdpFromRttAndBandwidth unwind=400 preempt=0 tier=debug
func ZZ_C12_DebugPrefix() {
	q := zzNewQuic(ProfileStandard)
	q.prefix(6)
	verifCover("dbg rate="+strconv.Itoa(int(q.b.pacingRate))+" rounds="+strconv.Itoa(int(q.b.roundTripCount))+" nogain="+strconv.Itoa(int(q.b.roundsWithoutBandwidthGain))+" applim="+strconv.FormatBool(q.b.lastSampleIsAppLimited)+" bw="+strconv.Itoa(int(q.b.bandwidthEstimate()))+" out="+strconv.Itoa(len(q.out))+" cwnd="+strconv.Itoa(int(q.b.GetCongestionWindow())))
	verifObserveInt("mode", int64(q.b.mode))
	verifObserveInt("full", int64(q.b.roundsWithoutBandwidthGain))
	verifObserveInt("recovery", int64(q.b.recoveryState))
	verifObserveInt("out", int64(len(q.out)))
	verifObserveInt("cwnd", int64(q.b.GetCongestionWindow()/q.mds))
	if q.b.isAtFullBandwidth {
		verifCover("past-startup")
	}
	if q.b.InRecovery() {
		verifCover("in-recovery")
	}
	if q.b.mode == bbrModeProbeRtt {
		verifCover("probe-rtt")
	}
	if q.b.mode == bbrModeProbeBw {
		verifCover("probe-bw")
	}
	verifCover("done")
}
