//go:build verif

//verif:pkg core/internal/congestion/bbr
package bbr

import (
	"github.com/apernet/quic-go/congestion"
)

// The packet-number queue driven from EMPTY through histories of its public
// operations (so every state is a reachable one and a failure is a real
// history): Emplace with gaps of 0..2 skipped numbers, Remove of any stored
// number, RemoveUpTo any bound. After every operation the queue agrees with a
// shadow list of the numbers that are present: count, emptiness, membership,
// first/last number, and slots used = span from first to last.
//
//verif:harness kind=api unwind=64 bound=operations<=5(quick)/6(thorough),gaps<=2,packet-numbers-from-1
func ZZ_C12_QueueHistories() {
	q := newPacketNumberIndexedQueue[zzEntry](2)
	var shadow []congestion.PacketNumber // present numbers, ascending
	next := congestion.PacketNumber(1)
	steps := 5
	if verifThorough() {
		steps = 6
	}
	for s := 0; s < steps; s++ {
		switch verifChoice("op", 3) {
		case 0:
			pn := next + congestion.PacketNumber(verifChoice("gap", 3))
			e := zzEntry{size: congestion.ByteCount(pn)}
			verifAssert(q.Emplace(pn, &e), "an in-order number is stored")
			shadow = append(shadow, pn)
			next = pn + 1
		case 1:
			if len(shadow) == 0 {
				continue
			}
			k := verifChoice("which", len(shadow))
			pn := shadow[k]
			called := 0
			verifAssert(q.Remove(pn, func(zzEntry) { called++ }) && called == 1, "a stored entry is removed and handed over once")
			shadow = append(shadow[:k:k], shadow[k+1:]...)
			verifCover("removed")
		case 2:
			bound := congestion.PacketNumber(verifChoice("upTo", int(next)+1))
			q.RemoveUpTo(bound)
			var kept []congestion.PacketNumber
			for _, p := range shadow {
				if p >= bound {
					kept = append(kept, p)
				}
			}
			shadow = kept
			verifCover("pruned")
		}
		verifAssert(q.NumberOfPresentEntries() == len(shadow), "the present-entry count equals the number of stored packets")
		verifAssert(q.IsEmpty() == (len(shadow) == 0), "the queue is empty exactly when nothing is stored")
		for p := congestion.PacketNumber(1); p < next; p++ {
			in := false
			for _, x := range shadow {
				if x == p {
					in = true
				}
			}
			e := q.GetEntry(p)
			verifAssert((e != nil) == in, "GetEntry finds exactly the stored packets")
			if e != nil {
				verifAssert(e.size == congestion.ByteCount(p), "with their own record")
			}
		}
		if len(shadow) > 0 {
			verifAssert(q.FirstPacket() == shadow[0] && q.LastPacket() >= shadow[len(shadow)-1] && q.LastPacket() < next, "first and last number bracket the stored packets")
			verifAssert(q.EntrySlotsUsed() >= len(shadow) && q.EntrySlotsUsed() <= int(next-shadow[0]), "slots used lie between the stored count and the span since the first stored packet")
		} else {
			verifAssert(q.EntrySlotsUsed() == 0, "an empty queue holds no slots")
		}
	}
	verifCover("done")
}
