//go:build verif

//verif:pkg core/server
package server

import (
	"io"

	"github.com/apernet/hysteria/core/v2/internal/protocol"
	"github.com/apernet/quic-go"
	"github.com/apernet/quic-go/http3"
)

// The seam between the HTTP/3 stream dispatcher (which only PEEKS the frame
// type) and ReadTCPRequest: whatever width the peer chose for the frame-type
// varint, for the address length and for the padding length, the server
// consumes exactly the frame, dials the address that was sent, and the first
// payload byte behind the frame reaches the target.
//
//verif:harness kind=api replay=interp unwind=64 preempt=0 bound=type-varint:2/4/8B,addr-len-varint:1/2/4/8B,padding:0..2B(width-1/2/8),payload:1..2B
func ZZ_C04_ServerConsumesExactlyTheFrame() {
	conn := &quic.Conn{}
	st := &quic.Stream{}
	var in []byte
	switch verifChoice("typeWidth", 3) {
	case 0:
		in = []byte{0x44, 0x01}
	case 1:
		in = []byte{0x80, 0x00, 0x04, 0x01}
	case 2:
		in = []byte{0xc0, 0, 0, 0, 0, 0, 0x04, 0x01}
	}
	in = append(in, zzVarint(3, verifChoice("addrWidth", 4))...)
	in = append(in, 'a', ':', '1')
	np := verifChoice("padLen", 3)
	in = append(in, zzVarint(np, []int{0, 1, 3}[verifChoice("padWidth", 3)])...)
	in = append(in, verifBytes("padding", np)...)
	payload := verifBytes("payload", 1+verifChoice("n", 2))
	in = append(in, payload...)
	zzStream(st).in = in
	ob := &zzDialOutbound{conn: &zzTarget{done: make(chan struct{})}}
	ob.conn.final = io.EOF
	ob.conn.writeErrAt = -1
	h := newH3sHandler(&Config{Outbound: ob}, conn)
	h.authenticated = true
	h.authID = "user"
	hijacked, err := h.ProxyStreamHijacker(http3.FrameType(protocol.FrameTypeTCPRequest), st, nil)
	verifQuiesce()
	verifAssert(hijacked && err == nil, "a proxy stream on an authenticated connection is taken")
	verifAssert(len(ob.dials) == 1 && ob.dials[0] == "a:1", "the address that was sent is dialled, whatever the varint widths")
	verifAssert(len(ob.conn.got) == len(payload) && zzIsPrefix(ob.conn.got, payload), "the payload behind the frame reaches the target complete and from its first byte")
	verifCover("relayed")
}

// n as a QUIC varint of width 1<<w bytes
func zzVarint(n int, w int) []byte {
	switch w {
	case 0:
		return []byte{byte(n)}
	case 1:
		return []byte{0x40, byte(n)}
	case 2:
		return []byte{0x80, 0, 0, byte(n)}
	}
	return []byte{0xc0, 0, 0, 0, 0, 0, 0, byte(n)}
}
