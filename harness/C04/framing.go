//go:build verif

//verif:pkg core/internal/protocol
package protocol

import (
	"bytes"
	"io"
)

// padding.String() by its contract: a string of arbitrary bytes whose length
// lies in [Min, Max); the solver side explores Min, Min+1 and Max-1.
//
//verif:model (github.com/apernet/hysteria/core/v2/internal/protocol.padding).String
func zzModelPadding(p padding) string {
	n := []int{p.Min, p.Min + 1, p.Max - 1}[verifChoice("padLen", 3)]
	return verifString("pad", n)
}

// zzReader hands out a byte stream in chunks and counts what it handed out.
// mode 0: one byte per Read, 1: half of what is asked (at least 1), 2: all.
type zzReader struct {
	data []byte
	pos  int
	mode int
	max  int // largest single request seen
}

func (r *zzReader) Read(p []byte) (int, error) {
	if len(p) > r.max {
		r.max = len(p)
	}
	if len(p) == 0 {
		return 0, nil
	}
	if r.pos >= len(r.data) {
		return 0, io.EOF
	}
	n := len(p)
	switch r.mode {
	case 0:
		n = 1
	case 1:
		n = (n + 1) / 2
	}
	if n > len(r.data)-r.pos {
		n = len(r.data) - r.pos
	}
	copy(p, r.data[r.pos:r.pos+n])
	r.pos += n
	return n, nil
}

// zzVarint appends v in the given width (1,2,4,8 bytes); non-minimal allowed.
func zzVarint(b []byte, v uint64, width int) []byte {
	switch width {
	case 1:
		return append(b, byte(v))
	case 2:
		return append(b, byte(v>>8)|0x40, byte(v))
	case 4:
		return append(b, byte(v>>24)|0x80, byte(v>>16), byte(v>>8), byte(v))
	}
	return append(b, byte(v>>56)|0xc0, byte(v>>48), byte(v>>40), byte(v>>32), byte(v>>24), byte(v>>16), byte(v>>8), byte(v))
}

var zzWidths = []int{1, 2, 4, 8}

func zzAddrLens() []int {
	return []int{1, 2, 63, 64, 65, 2047, 2048}
}

// zzField draws a field of n bytes: all symbolic when short (thorough: always),
// first and last four bytes symbolic and the rest fixed when long
func zzField(label string, n int) []byte {
	if n <= 65 || verifThorough() {
		return verifBytes(label, n)
	}
	b := make([]byte, n)
	for i := range b {
		b[i] = byte('a' + i%23)
	}
	e := verifBytes(label+"Ends", 8)
	copy(b[:4], e[:4])
	copy(b[n-4:], e[4:])
	return b
}

func zzSameBytes(a string, b []byte) bool {
	if len(a) != len(b) {
		return false
	}
	d := byte(0)
	for i := 0; i < len(b); i++ {
		d |= a[i] ^ b[i]
	}
	return d == 0
}

// What WriteTCPRequest writes, ReadTCPRequest reads back, consuming exactly the
// frame, for every chunking mode and with payload following.
//
//verif:harness kind=api unwind=4200 bound=addr∈{1,2,63,64,65,2047,2048}(long:ends-symbolic(quick)/all-symbolic(thorough)),pad∈{64,65,511},chunk∈{1,half,all}
func ZZ_C04_RequestRoundTrip() {
	lens := zzAddrLens()
	addr := zzField("addr", lens[verifChoice("addrLen", len(lens))])
	var w bytes.Buffer
	verifAssert(WriteTCPRequest(&w, string(addr)) == nil, "write ok")
	frame := w.Bytes()
	verifAssert(len(frame) >= 2 && frame[0] == 0x44 && frame[1] == 0x01, "frame starts with varint 0x401")
	tail := verifBytes("payload", 2)
	stream := append(append([]byte(nil), frame[2:]...), tail...) // the server consumed the frame type
	r := &zzReader{data: stream, mode: verifChoice("chunk", 3)}
	got, err := ReadTCPRequest(r)
	verifAssert(err == nil, "a written request is readable")
	verifAssert(zzSameBytes(got, addr), "address read back identical")
	verifAssert(r.pos == len(frame)-2, "exactly the frame is consumed; the payload that follows is untouched")
	verifCover("roundtrip")
}

//verif:harness kind=api unwind=4200 bound=msg∈{0,1,63,64,65,2047,2048}(long:ends-symbolic(quick)/all-symbolic(thorough)),pad∈{128,129,1023},chunk∈{1,half,all}
func ZZ_C04_ResponseRoundTrip() {
	lens := append([]int{0}, zzAddrLens()...)
	msg := zzField("msg", lens[verifChoice("msgLen", len(lens))])
	ok := verifBool("ok")
	var w bytes.Buffer
	verifAssert(WriteTCPResponse(&w, ok, string(msg)) == nil, "write ok")
	frame := w.Bytes()
	stream := append(append([]byte(nil), frame...), verifBytes("payload", 2)...)
	r := &zzReader{data: stream, mode: verifChoice("chunk", 3)}
	gotOK, got, err := ReadTCPResponse(r)
	verifAssert(err == nil, "a written response is readable")
	verifAssert(gotOK == ok && zzSameBytes(got, msg), "status and message read back identical")
	verifAssert(r.pos == len(frame), "exactly the frame is consumed")
	verifCover("roundtrip")
}

// Reader side with the peer's free choices: any varint width for both length
// fields, padding 0..3 bytes, payload after the frame.
//
//verif:harness kind=api unwind=300 bound=addr∈{1,2,3},pad∈{0..3},widths{1,2,4,8}²,chunk∈{1,half,all}
func ZZ_C04_RequestPeerEncodings() {
	addr := verifBytes("addr", 1+verifChoice("addrLen", 3))
	padLen := verifChoice("padLen", 4)
	var f []byte
	f = zzVarint(f, uint64(len(addr)), zzWidths[verifChoice("w1", 4)])
	f = append(f, addr...)
	f = zzVarint(f, uint64(padLen), zzWidths[verifChoice("w2", 4)])
	f = append(f, verifBytes("pad", padLen)...)
	flen := len(f)
	f = append(f, verifBytes("payload", 2)...)
	r := &zzReader{data: f, mode: verifChoice("chunk", 3)}
	got, err := ReadTCPRequest(r)
	verifAssert(err == nil && zzSameBytes(got, addr), "any varint width is accepted and the address is exact")
	verifAssert(r.pos == flen, "exactly the frame is consumed")
	verifCover("accepted")
}

// A frame whose declared address, message or padding length is over the limit
// (or whose address is empty) is rejected before the declared amount is read
// or allocated.
//
//verif:harness kind=api unwind=300 bound=declared∈{0,2049,4097,65536,2^32,2^62-1}+any-value-in-[4097,2^62)(symbolic,8-byte-form),widths
func ZZ_C04_OverLimitRejected() {
	which := verifChoice("field", 3) // 0 address, 1 request padding, 2 response message
	k := verifChoice("declared", 6)
	bad := []uint64{2049, 4097, 65536, 1 << 32, 1<<62 - 1, 0}[k]
	if which == 1 && bad == 2049 {
		bad = 4097
	}
	w := 8
	if k == 5 {
		// ANY declared length above every limit, as an 8-byte varint (symbolic)
		bad = verifUint64("declared8", 4097, 1<<62-1)
		verifCover("any-over-limit-length")
	} else if bad < 1<<14 && verifBool("w2") {
		w = 2
	} else if bad < 1<<30 && verifBool("w4") {
		w = 4
	}
	junk := verifBytes("junk", 6)
	var f []byte
	var err error
	var r *zzReader
	hdr := 0
	switch which {
	case 0:
		zero := verifBool("zeroLen")
		if zero {
			bad = 0
		}
		f = zzVarint(f, bad, w)
		hdr = len(f)
		r = &zzReader{data: append(f, junk...), mode: verifChoice("chunk", 3)}
		_, err = ReadTCPRequest(r)
	case 1:
		f = zzVarint(f, 1, 1)
		f = append(f, 'x')
		f = zzVarint(f, bad, w)
		hdr = len(f)
		r = &zzReader{data: append(f, junk...), mode: verifChoice("chunk", 3)}
		_, err = ReadTCPRequest(r)
	default:
		f = append(f, 0)
		f = zzVarint(f, bad, w)
		hdr = len(f)
		r = &zzReader{data: append(f, junk...), mode: verifChoice("chunk", 3)}
		_, _, err = ReadTCPResponse(r)
	}
	verifAssert(err != nil, "over-limit or empty length is rejected")
	verifAssert(r.pos <= hdr, "nothing beyond the length field is consumed")
	verifAssert(r.max <= 4096, "no read buffer sized by the declared length")
	verifAssert(verifMaxAlloc() <= 4096, "no allocation sized by the declared length")
	verifCover("rejected")
}
