//go:build verif

//verif:pkg core/server
package server

import (
	"crypto/tls"
	"errors"
	"net"
	"time"

	"github.com/apernet/quic-go"
	"github.com/apernet/quic-go/http3"
)

// Whole connection lifecycles through the server's own per-connection entry
// point (handleClient): quic-go's HTTP/3 serving loop is replaced by a model
// that feeds the connection's scripted events to the handler the server built
// and returns when the connection ends.

type zzLcEvent struct {
	auth  bool // an authentication request (else: a 0x401 proxy stream)
	creds string
}

var (
	zzLcScript   = map[*quic.Conn][]zzLcEvent{}
	zzLcCur      *quic.Conn          // the connection whose event is being processed
	zzLcAccepted = map[*quic.Conn]bool{} // ghost: the authenticator accepted credentials presented on this connection
	zzLcStatus   = map[*quic.Conn][]int{}
	zzLcHijacked = map[*quic.Conn][]bool{}
)

//verif:model (*github.com/apernet/quic-go/http3.Server).ServeQUICConn
func zzModelServeQUICConn(s *http3.Server, conn *quic.Conn) error {
	for _, ev := range zzLcScript[conn] {
		zzLcCur = conn
		if ev.auth {
			w := &zzRW{}
			s.Handler.ServeHTTP(w, zzAuthRequest("POST", "hysteria", "/auth", ev.creds, "0", true))
			zzLcStatus[conn] = append(zzLcStatus[conn], w.status)
		} else {
			st := &quic.Stream{}
			zzStream(st).in = []byte{0x44, 0x01, 0x03, 'a', ':', '1', 0x00}
			h, _ := s.StreamDispatcher(http3.FrameType(0x401), st, nil)
			zzLcHijacked[conn] = append(zzLcHijacked[conn], h)
		}
		verifQuiesce()
	}
	return errors.New("connection closed by peer")
}

// The server is built by its public constructor; only the QUIC listener behind
// it is a model.
//
//verif:model (*github.com/apernet/quic-go.Transport).Listen
func zzModelTransportListen(t *quic.Transport, tlsConf *tls.Config, conf *quic.Config) (*quic.Listener, error) {
	return &quic.Listener{}, nil
}

//verif:model github.com/apernet/quic-go/http3.ConfigureTLSConfig
func zzModelConfigureTLS(c *tls.Config) *tls.Config { return c }

type zzLcPacketConn struct{}

func (zzLcPacketConn) ReadFrom(p []byte) (int, net.Addr, error)  { return 0, nil, errors.New("closed") }
func (zzLcPacketConn) WriteTo(p []byte, a net.Addr) (int, error) { return len(p), nil }
func (zzLcPacketConn) Close() error                              { return nil }
func (zzLcPacketConn) LocalAddr() net.Addr                       { return zzNetAddr{"0.0.0.0:443"} }
func (zzLcPacketConn) SetDeadline(time.Time) error               { return nil }
func (zzLcPacketConn) SetReadDeadline(time.Time) error           { return nil }
func (zzLcPacketConn) SetWriteDeadline(time.Time) error          { return nil }

// "good" is always accepted, "once" is a one-time token (accepted the first
// time it is presented to the authenticator, revoked afterwards), anything
// else is rejected.
type zzLcAuth struct{ onceUsed bool }

func (a *zzLcAuth) Authenticate(addr net.Addr, auth string, tx uint64) (bool, string) {
	if auth == "good" || (auth == "once" && !a.onceUsed) {
		if auth == "once" {
			a.onceUsed = true
		}
		zzLcAccepted[zzLcCur] = true
		return true, "alice"
	}
	return false, ""
}

type zzLcOutbound struct{ dials int }

func (o *zzLcOutbound) TCP(reqAddr string) (net.Conn, error) {
	o.dials++
	verifAssert(zzLcAccepted[zzLcCur], "outbound TCP dial only for a connection whose own authentication was accepted")
	return nil, errors.New("dial refused")
}
func (o *zzLcOutbound) UDP(reqAddr string) (UDPConn, error) {
	verifAssert(zzLcAccepted[zzLcCur], "outbound UDP socket only for a connection whose own authentication was accepted")
	return nil, errors.New("dial refused")
}
func (o *zzLcOutbound) CheckUDP(reqAddr string) error { return nil }

type zzLcOnline struct{ on, off int }

func (t *zzLcOnline) LogTraffic(id string, tx, rx uint64) bool { return true }
func (t *zzLcOnline) LogOnlineState(id string, online bool) {
	if online {
		t.on++
	} else {
		t.off++
	}
}
func (t *zzLcOnline) TraceStream(stream HyStream, stats *StreamStats) {}
func (t *zzLcOnline) UntraceStream(stream HyStream)                   {}

// Three connections, one after the other, each with a script of up to two
// events (auth with good, bad or one-time credentials, proxy stream) on a
// server built by NewServer: a connection
// proxies only after ITS OWN accepted authentication - whatever earlier
// connections of the same server did (and whatever the server recycles between
// them); every authenticated connection is reported online once and offline
// once when it ends.
//
//verif:harness kind=api replay=interp unwind=200 preempt=0 bound=3-connections-in-sequence,2-events-each
func ZZ_C01_ConnectionLifecycles() {
	ob := &zzLcOutbound{}
	online := &zzLcOnline{}
	srv, err := NewServer(&Config{
		TLSConfig:     TLSConfig{Certificates: []tls.Certificate{{}}},
		Conn:          zzLcPacketConn{},
		Authenticator: &zzLcAuth{}, Outbound: ob, TrafficLogger: online, EventLogger: &zzEvents{}, DisableUDP: true,
	})
	verifAssert(err == nil, "the server is built")
	s := srv.(*serverImpl)
	authed := 0
	onceUsed := false // reference: the one-time token has been presented to the authenticator
	for c := 0; c < 3; c++ {
		conn := &quic.Conn{}
		var script []zzLcEvent
		for e := 0; e < 2; e++ {
			switch verifChoice("event", 4) {
			case 0:
				script = append(script, zzLcEvent{auth: true, creds: "good"})
			case 1:
				script = append(script, zzLcEvent{auth: true, creds: "bad"})
			case 2:
				script = append(script, zzLcEvent{})
			case 3:
				script = append(script, zzLcEvent{auth: true, creds: "once"})
			}
		}
		zzLcScript[conn] = script
		s.handleClient(conn)
		verifQuiesce()
		// what this connection saw
		accepted := false
		si, hi := 0, 0
		for _, ev := range script {
			if ev.auth {
				if !accepted { // a repeated attempt on an authenticated connection is not evaluated
					if ev.creds == "good" || (ev.creds == "once" && !onceUsed) {
						accepted = true
					}
					if ev.creds == "once" {
						onceUsed = true
					}
				}
				verifAssert((zzLcStatus[conn][si] == 233) == accepted, "an auth request is answered 233 exactly when this connection has presented accepted credentials")
				si++
			} else {
				verifAssert(zzLcHijacked[conn][hi] == accepted, "a proxy stream is taken exactly when this connection authenticated before it")
				if !accepted && c > 0 {
					verifCover("stream-on-fresh-connection-after-others")
				}
				hi++
			}
		}
		if accepted {
			authed++
		}
		verifAssert(online.on == authed && online.off == authed, "every authenticated connection is reported online once and offline once when it ends")
	}
	verifCover("done")
}
