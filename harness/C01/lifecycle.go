//go:build verif

//verif:pkg core/server
package server

import (
	"errors"
	"net"

	"github.com/apernet/quic-go"
	"github.com/apernet/quic-go/http3"
)

// Whole connection lifecycles through the server's own per-connection entry
// point (handleClient): quic-go's HTTP/3 serving loop is replaced by a model
// that feeds the connection's scripted events to the handler the server built
// and returns when the connection ends.

type zzLcEvent struct {
	auth  bool // an authentication request (else: a 0x401 proxy stream)
	creds string
}

var (
	zzLcScript   = map[*quic.Conn][]zzLcEvent{}
	zzLcCur      *quic.Conn          // the connection whose event is being processed
	zzLcAccepted = map[*quic.Conn]bool{} // ghost: the authenticator accepted credentials presented on this connection
	zzLcStatus   = map[*quic.Conn][]int{}
	zzLcHijacked = map[*quic.Conn][]bool{}
)

//verif:model (*github.com/apernet/quic-go/http3.Server).ServeQUICConn
func zzModelServeQUICConn(s *http3.Server, conn *quic.Conn) error {
	for _, ev := range zzLcScript[conn] {
		zzLcCur = conn
		if ev.auth {
			w := &zzRW{}
			s.Handler.ServeHTTP(w, zzAuthRequest("POST", "hysteria", "/auth", ev.creds, "0", true))
			zzLcStatus[conn] = append(zzLcStatus[conn], w.status)
		} else {
			st := &quic.Stream{}
			zzStream(st).in = []byte{0x44, 0x01, 0x03, 'a', ':', '1', 0x00}
			h, _ := s.StreamDispatcher(http3.FrameType(0x401), st, nil)
			zzLcHijacked[conn] = append(zzLcHijacked[conn], h)
		}
		verifQuiesce()
	}
	return errors.New("connection closed by peer")
}

type zzLcAuth struct{}

func (zzLcAuth) Authenticate(addr net.Addr, auth string, tx uint64) (bool, string) {
	if auth == "good" {
		zzLcAccepted[zzLcCur] = true
		return true, "alice"
	}
	return false, ""
}

type zzLcOutbound struct{ dials int }

func (o *zzLcOutbound) TCP(reqAddr string) (net.Conn, error) {
	o.dials++
	verifAssert(zzLcAccepted[zzLcCur], "outbound TCP dial only for a connection whose own authentication was accepted")
	return nil, errors.New("dial refused")
}
func (o *zzLcOutbound) UDP(reqAddr string) (UDPConn, error) {
	verifAssert(zzLcAccepted[zzLcCur], "outbound UDP socket only for a connection whose own authentication was accepted")
	return nil, errors.New("dial refused")
}
func (o *zzLcOutbound) CheckUDP(reqAddr string) error { return nil }

type zzLcOnline struct{ on, off int }

func (t *zzLcOnline) LogTraffic(id string, tx, rx uint64) bool { return true }
func (t *zzLcOnline) LogOnlineState(id string, online bool) {
	if online {
		t.on++
	} else {
		t.off++
	}
}
func (t *zzLcOnline) TraceStream(stream HyStream, stats *StreamStats) {}
func (t *zzLcOnline) UntraceStream(stream HyStream)                   {}

// Three connections, one after the other, each with a script of up to two
// events (auth with good or bad credentials, proxy stream): a connection
// proxies only after ITS OWN accepted authentication - whatever earlier
// connections of the same server did (and whatever the server recycles between
// them); every authenticated connection is reported online once and offline
// once when it ends.
//
//verif:harness kind=api replay=interp unwind=200 preempt=0 bound=3-connections-in-sequence,2-events-each
func ZZ_C01_ConnectionLifecycles() {
	ob := &zzLcOutbound{}
	online := &zzLcOnline{}
	s := &serverImpl{config: &Config{Authenticator: zzLcAuth{}, Outbound: ob, TrafficLogger: online, EventLogger: &zzEvents{}, DisableUDP: true}}
	authed := 0
	for c := 0; c < 3; c++ {
		conn := &quic.Conn{}
		var script []zzLcEvent
		for e := 0; e < 2; e++ {
			switch verifChoice("event", 3) {
			case 0:
				script = append(script, zzLcEvent{auth: true, creds: "good"})
			case 1:
				script = append(script, zzLcEvent{auth: true, creds: "bad"})
			case 2:
				script = append(script, zzLcEvent{})
			}
		}
		zzLcScript[conn] = script
		s.handleClient(conn)
		verifQuiesce()
		// what this connection saw
		accepted := false
		si, hi := 0, 0
		for _, ev := range script {
			if ev.auth {
				if ev.creds == "good" {
					accepted = true
				}
				verifAssert((zzLcStatus[conn][si] == 233) == accepted, "an auth request is answered 233 exactly when this connection has presented accepted credentials")
				si++
			} else {
				verifAssert(zzLcHijacked[conn][hi] == accepted, "a proxy stream is taken exactly when this connection authenticated before it")
				if !accepted && c > 0 {
					verifCover("stream-on-fresh-connection-after-others")
				}
				hi++
			}
		}
		if accepted {
			authed++
		}
		verifAssert(online.on == authed && online.off == authed, "every authenticated connection is reported online once and offline once when it ends")
	}
	verifCover("done")
}
