//go:build verif

//verif:pkg core/server
package server

import (
	"errors"
	"net"

	"github.com/apernet/quic-go"
	"github.com/apernet/quic-go/http3"
)

// ghost state of the harness: which connection's credentials the authenticator accepted
var zzAccepted = map[*h3sHandler]bool{}
var zzCurrent *h3sHandler // the connection whose event is being processed

type zzGateAuth struct {
	calls int
}

func (a *zzGateAuth) Authenticate(addr net.Addr, auth string, tx uint64) (bool, string) {
	a.calls++
	ok := verifBool("verdict")
	if ok {
		zzAccepted[zzCurrent] = true
	}
	return ok, "user1"
}

type zzGateOutbound struct{ tcp, udp, check int }

func (o *zzGateOutbound) TCP(reqAddr string) (net.Conn, error) {
	o.tcp++
	verifAssert(zzAccepted[zzCurrent], "outbound TCP dial only for a connection whose authentication was accepted")
	return nil, errors.New("dial refused")
}
func (o *zzGateOutbound) UDP(reqAddr string) (UDPConn, error) {
	o.udp++
	verifAssert(zzAccepted[zzCurrent], "outbound UDP socket only for a connection whose authentication was accepted")
	return nil, errors.New("dial refused")
}
func (o *zzGateOutbound) CheckUDP(reqAddr string) error {
	o.check++
	verifAssert(zzAccepted[zzCurrent], "UDP policy lookups only for an authenticated connection")
	return nil
}

type zzOnline struct{ on, off int }

func (t *zzOnline) LogTraffic(id string, tx, rx uint64) bool      { return true }
func (t *zzOnline) LogOnlineState(id string, online bool) {
	if online {
		t.on++
	} else {
		t.off++
	}
}
func (t *zzOnline) TraceStream(stream HyStream, stats *StreamStats) {}
func (t *zzOnline) UntraceStream(stream HyStream)                   {}

// blocking datagram receive for this harness: a queue the harness feeds
var zzDgrams = map[*quic.Conn]chan []byte{}

// a valid UDPMessage: session 1, packet 0, frag 0/1, address "h:53", payload 'p'
var zzUDPMsg = []byte{0, 0, 0, 1, 0, 0, 0, 1, 4, 'h', ':', '5', '3', 'p'}

// a valid proxy stream: frame type 0x401, address "a:1", no padding
var zzTCPStream = []byte{0x44, 0x01, 0x03, 'a', ':', '1', 0x00}

// Any interleaving (sequential events, goroutines drained after each) on two
// connections of one server of: auth requests (accepted or rejected), non-auth
// requests, proxy streams and datagrams. Nothing is dialled, looked up or
// written for a connection before its own authentication was accepted; one
// connection's acceptance never authorises the other; a repeated attempt on an
// authenticated connection is neither re-evaluated nor revoking.
//
//verif:harness kind=api replay=interp unwind=200 preempt=0 bound=events<=3(quick)/4(thorough),2-connections
func ZZ_C01_NoProxyBeforeAuth() {
	auth := &zzGateAuth{}
	ob := &zzGateOutbound{}
	online := &zzOnline{}
	ev := &zzEvents{}
	cfg := &Config{Authenticator: auth, Outbound: ob, TrafficLogger: online, EventLogger: ev}
	conns := []*quic.Conn{{}, {}}
	hs := []*h3sHandler{newH3sHandler(cfg, conns[0]), newH3sHandler(cfg, conns[1])}
	var streams [2][]*quic.Stream
	steps := 3
	if verifThorough() {
		steps = 4
	}
	for s := 0; s < steps; s++ {
		k := verifChoice("conn", 2)
		h := hs[k]
		other := hs[1-k]
		zzCurrent = h
		wasAuth, otherAuth := h.authenticated, other.authenticated
		callsBefore := auth.calls
		switch verifChoice("event", 4) {
		case 0: // authentication request
			w := &zzRW{}
			h.ServeHTTP(w, zzAuthRequest("POST", "hysteria", "/auth", "cred", "0", true))
			if wasAuth {
				verifCover("repeated-auth")
				verifAssert(auth.calls == callsBefore, "a repeated attempt is not re-evaluated")
				verifAssert(w.status == 233 && h.authenticated, "and neither revokes access nor is refused")
			} else {
				verifAssert(auth.calls == callsBefore+1, "credentials are evaluated once")
				verifAssert(h.authenticated == zzAccepted[h], "the connection is authenticated exactly when its credentials were accepted")
			}
		case 1: // ordinary HTTP/3 request
			w := &zzRW{}
			h.ServeHTTP(w, zzAuthRequest("GET", "example.com", "/", "", "", false))
			verifAssert(w.untouched(), "non-auth requests are left to the masquerade handler")
			verifAssert(h.authenticated == wasAuth, "and do not change the authentication state")
		case 2: // raw stream opening with frame type 0x401
			st := &quic.Stream{}
			zzStream(st).in = append([]byte(nil), zzTCPStream...)
			streams[k] = append(streams[k], st)
			hijacked, _ := h.ProxyStreamHijacker(http3.FrameType(0x401), st, nil)
			verifAssert(hijacked == wasAuth, "proxy streams are taken exactly on authenticated connections")
			verifQuiesce()
			if !wasAuth {
				verifCover("stream-before-auth")
				verifAssert(zzStream(st).ops == 0, "an unauthenticated proxy stream is neither read nor answered")
			}
		case 3: // datagram
			verifCover("datagram")
			zzConn(conns[k]).inDgrams = append(zzConn(conns[k]).inDgrams, append([]byte(nil), zzUDPMsg...))
		}
		verifQuiesce()
		verifAssert(other.authenticated == otherAuth, "an event on one connection never changes the other's authentication")
		verifAssert(!h.authenticated || zzAccepted[h], "authenticated implies accepted by the authenticator on this very connection")
		verifAssert(h.udpSM == nil || zzAccepted[h], "the UDP session manager exists only after acceptance")
		verifAssert(len(zzConn(conns[k]).outDgrams) == 0 || zzAccepted[h], "no datagram is sent to an unauthenticated peer")
	}
	n := 0
	for i := range hs {
		if hs[i].authenticated {
			n++
		}
	}
	verifAssert(online.on == n, "one online notification per accepted connection")
	verifCover("done")
}
