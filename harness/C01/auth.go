//go:build verif

//verif:pkg core/server
package server

import (
	"errors"
	"net"

	"github.com/apernet/quic-go"
	"github.com/apernet/quic-go/http3"
)

// ghost state of the harness: which connection's credentials the authenticator accepted
var zzAccepted = map[*h3sHandler]bool{}
var zzCurrent *h3sHandler // the connection whose event is being processed

type zzGateAuth struct {
	calls int
}

func (a *zzGateAuth) Authenticate(addr net.Addr, auth string, tx uint64) (bool, string) {
	a.calls++
	ok := verifBool("verdict")
	if ok {
		zzAccepted[zzCurrent] = true
	}
	return ok, "user1"
}

type zzGateOutbound struct{ tcp, udp, check int }

func (o *zzGateOutbound) TCP(reqAddr string) (net.Conn, error) {
	o.tcp++
	verifAssert(zzAccepted[zzCurrent], "outbound TCP dial only for a connection whose authentication was accepted")
	return nil, errors.New("dial refused")
}
func (o *zzGateOutbound) UDP(reqAddr string) (UDPConn, error) {
	o.udp++
	verifAssert(zzAccepted[zzCurrent], "outbound UDP socket only for a connection whose authentication was accepted")
	return nil, errors.New("dial refused")
}
func (o *zzGateOutbound) CheckUDP(reqAddr string) error {
	o.check++
	verifAssert(zzAccepted[zzCurrent], "UDP policy lookups only for an authenticated connection")
	return nil
}

type zzOnline struct{ on, off int }

func (t *zzOnline) LogTraffic(id string, tx, rx uint64) bool      { return true }
func (t *zzOnline) LogOnlineState(id string, online bool) {
	if online {
		t.on++
	} else {
		t.off++
	}
}
func (t *zzOnline) TraceStream(stream HyStream, stats *StreamStats) {}
func (t *zzOnline) UntraceStream(stream HyStream)                   {}

// blocking datagram receive for this harness: a queue the harness feeds
var zzDgrams = map[*quic.Conn]chan []byte{}

// a valid UDPMessage: session 1, packet 0, frag 0/1, address "h:53", payload 'p'
var zzUDPMsg = []byte{0, 0, 0, 1, 0, 0, 0, 1, 4, 'h', ':', '5', '3', 'p'}

// a valid proxy stream: frame type 0x401, address "a:1", no padding
var zzTCPStream = []byte{0x44, 0x01, 0x03, 'a', ':', '1', 0x00}

// Any interleaving (sequential events, goroutines drained after each) on two
// connections of one server of: auth requests (accepted or rejected), non-auth
// requests, proxy streams and datagrams. Nothing is dialled, looked up or
// written for a connection before its own authentication was accepted; one
// connection's acceptance never authorises the other; a repeated attempt on an
// authenticated connection is neither re-evaluated nor revoking.
//
//verif:harness kind=api replay=interp unwind=200 preempt=0 bound=events<=3(quick)/5(thorough),2-connections
func ZZ_C01_NoProxyBeforeAuth() {
	auth := &zzGateAuth{}
	ob := &zzGateOutbound{}
	online := &zzOnline{}
	ev := &zzEvents{}
	cfg := &Config{Authenticator: auth, Outbound: ob, TrafficLogger: online, EventLogger: ev}
	conns := []*quic.Conn{{}, {}}
	hs := []*h3sHandler{newH3sHandler(cfg, conns[0]), newH3sHandler(cfg, conns[1])}
	var streams [2][]*quic.Stream
	steps := 3
	if verifThorough() {
		steps = 5
	}
	for s := 0; s < steps; s++ {
		k := verifChoice("conn", 2)
		h := hs[k]
		other := hs[1-k]
		zzCurrent = h
		wasAuth, otherAuth := zzAccepted[h], zzAccepted[other]
		callsBefore := auth.calls
		switch verifChoice("event", 4) {
		case 0: // authentication request
			w := &zzRW{}
			h.ServeHTTP(w, zzAuthRequest("POST", "hysteria", "/auth", "cred", "0", true))
			if wasAuth {
				verifCover("repeated-auth")
				verifAssert(auth.calls == callsBefore, "a repeated attempt is not re-evaluated")
				verifAssert(w.status == 233, "and neither revokes access nor is refused")
			} else {
				verifAssert(auth.calls == callsBefore+1, "credentials are evaluated once")
				verifAssert((w.status == 233) == zzAccepted[h], "the request is answered 233 exactly when its credentials were accepted")
			}
		case 1: // ordinary HTTP/3 request
			w := &zzRW{}
			h.ServeHTTP(w, zzAuthRequest("GET", "example.com", "/", "", "", false))
			verifAssert(w.untouched(), "non-auth requests are left to the masquerade handler")
		case 2: // raw stream opening with frame type 0x401
			st := &quic.Stream{}
			zzStream(st).in = append([]byte(nil), zzTCPStream...)
			streams[k] = append(streams[k], st)
			hijacked, _ := h.ProxyStreamHijacker(http3.FrameType(0x401), st, nil)
			verifAssert(hijacked == wasAuth, "proxy streams are taken exactly on authenticated connections")
			verifQuiesce()
			if !wasAuth {
				verifCover("stream-before-auth")
				verifAssert(zzStream(st).ops == 0, "an unauthenticated proxy stream is neither read nor answered")
			}
		case 3: // datagram
			verifCover("datagram")
			zzConn(conns[k]).inDgrams = append(zzConn(conns[k]).inDgrams, append([]byte(nil), zzUDPMsg...))
		}
		verifQuiesce()
		verifAssert(zzAccepted[other] == otherAuth, "an event on one connection never changes the other's authentication")
		verifAssert(len(zzConn(conns[k]).outDgrams) == 0 || zzAccepted[h], "no datagram is sent to an unauthenticated peer")
	}
	// what each connection is allowed in the end is probed through its behaviour
	n := 0
	for i := range hs {
		zzCurrent = hs[i]
		st := &quic.Stream{}
		zzStream(st).in = append([]byte(nil), zzTCPStream...)
		hijacked, _ := hs[i].ProxyStreamHijacker(http3.FrameType(0x401), st, nil)
		verifAssert(hijacked == zzAccepted[hs[i]], "in the end a connection proxies exactly when the authenticator accepted it")
		verifQuiesce()
		if zzAccepted[hs[i]] {
			n++
		}
	}
	verifAssert(online.on == n, "one online notification per accepted connection")
	verifCover("done")
}

// an authenticator that takes its time: it blocks until the harness releases
// it and accepts exactly the credential "good"
type zzSlowAuth struct {
	gate     chan struct{}
	inflight int
	calls    int
}

func (a *zzSlowAuth) Authenticate(addr net.Addr, auth string, tx uint64) (bool, string) {
	a.calls++
	a.inflight++
	<-a.gate
	a.inflight--
	ok := auth == "good"
	if ok {
		zzAccepted[zzCurrent] = true
	}
	return ok, "user1"
}

// While an authentication request is still being evaluated (the authenticator
// has not answered yet) the connection is not authenticated: a proxy stream,
// a datagram or a second auth request arriving in that window opens nothing
// and is not answered 233; what happens afterwards depends only on what the
// authenticator accepted. Credentials of both requests good or bad.
//
//verif:harness kind=api replay=interp unwind=200 preempt=1 bound=2-requests,1-stream,1-datagram,one-preemption
func ZZ_C01_AuthInFlight() {
	auth := &zzSlowAuth{gate: make(chan struct{})}
	ob := &zzGateOutbound{}
	online := &zzOnline{}
	cfg := &Config{Authenticator: auth, Outbound: ob, TrafficLogger: online, EventLogger: &zzEvents{}}
	conn := &quic.Conn{}
	h := newH3sHandler(cfg, conn)
	zzCurrent = h
	creds := []string{"good", "bad"}
	c1 := creds[verifChoice("firstCredential", 2)]
	w1 := &zzRW{}
	go h.ServeHTTP(w1, zzAuthRequest("POST", "hysteria", "/auth", c1, "0", true))
	verifQuiesce()
	verifAssert(auth.inflight == 1, "the first request is being evaluated")
	// the window
	var w2 *zzRW
	var st *quic.Stream
	c2 := ""
	if verifBool("secondRequestInWindow") {
		c2 = creds[verifChoice("secondCredential", 2)]
		w2 = &zzRW{}
		go h.ServeHTTP(w2, zzAuthRequest("POST", "hysteria", "/auth", c2, "0", true))
		verifQuiesce()
		verifAssert(w2.status != 233, "a request arriving while authentication is pending is not answered 233")
		verifCover("second-request-in-window")
	}
	if verifBool("streamInWindow") {
		st = &quic.Stream{}
		zzStream(st).in = append([]byte(nil), zzTCPStream...)
		hijacked, _ := h.ProxyStreamHijacker(http3.FrameType(0x401), st, nil)
		verifQuiesce()
		verifAssert(!hijacked, "a proxy stream arriving while authentication is pending is declined")
		verifAssert(zzStream(st).ops == 0 && ob.tcp == 0, "and neither read, answered nor dialled")
		verifCover("stream-in-window")
	}
	if verifBool("datagramInWindow") {
		zzConn(conn).inDgrams = append(zzConn(conn).inDgrams, append([]byte(nil), zzUDPMsg...))
		verifQuiesce()
		verifAssert(ob.udp == 0 && ob.check == 0, "a datagram arriving while authentication is pending opens nothing")
	}
	verifAssert(w1.status != 233 && !zzAccepted[h], "nothing was accepted yet")
	close(auth.gate)
	verifQuiesce()
	verifAssert((w1.status == 233) == (c1 == "good"), "the first request is answered 233 exactly when its credentials are good")
	if w2 != nil {
		verifAssert((w2.status == 233) == (c1 == "good" || c2 == "good"), "the second exactly when either was accepted")
	}
	verifAssert(zzAccepted[h] == (c1 == "good" || c2 == "good"), "the authenticator accepted exactly the good credentials")
	if st != nil {
		verifAssert(zzStream(st).ops == 0, "the declined stream stays untouched")
	}
	verifAssert(len(zzConn(conn).outDgrams) == 0 || zzAccepted[h], "no datagram is sent to an unauthenticated peer")
	verifCover("released")
}
