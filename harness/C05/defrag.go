//go:build verif

//verif:pkg core/internal/frag
package frag

import (
	"github.com/apernet/hysteria/core/v2/internal/protocol"
)

func zzMsg(tag string, n int, pid uint16) *protocol.UDPMessage {
	return &protocol.UDPMessage{
		SessionID: verifUint32(tag + "sid"),
		PacketID:  pid,
		FragCount: 1,
		Addr:      verifString(tag+"addr", 2),
		Data:      verifBytes(tag+"data", n),
	}
}

func zzEqual(a *protocol.UDPMessage, b *protocol.UDPMessage) bool {
	if a.SessionID != b.SessionID || a.Addr != b.Addr || len(a.Data) != len(b.Data) {
		return false
	}
	d := byte(0)
	for i := range a.Data {
		d |= a.Data[i] ^ b.Data[i]
	}
	return d == 0
}

// Split a message, serialize and re-parse every fragment, and feed the
// fragments of two messages (distinct packet IDs) in an arbitrary order with
// duplicates and drops: whatever the reassembler emits is one of the originals,
// byte-identical, and a complete in-order delivery of one message emits it.
//
//verif:harness kind=api unwind=64 bound=payload<=6B,frags<=3,arrivals<=5(quick)/7(thorough),2-messages
func ZZ_C05_ReassembleOrders() {
	na := 3 + verifChoice("lenA", 4) // 3..6 bytes
	pidA := verifUint16("pidA")
	pidB := verifUint16("pidB")
	verifAssume(pidA != pidB)
	a := zzMsg("a", na, pidA)
	b := zzMsg("b", 4, pidB)
	hdr := a.HeaderSize()
	limit := hdr + 2 // two payload bytes per fragment
	fa := FragUDPMessage(a, limit)
	fb := FragUDPMessage(b, limit)
	verifAssert(len(fa) == (na+1)/2 && len(fb) == 2, "expected fragment counts")
	// wire round trip of every fragment
	var pool []*protocol.UDPMessage
	for _, fs := range [][]protocol.UDPMessage{fa, fb} {
		for i := range fs {
			buf := make([]byte, fs[i].Size())
			verifAssert(fs[i].Serialize(buf) == len(buf), "fragment serializes to its size")
			verifAssert(len(buf) <= limit, "fragment fits the limit")
			m, err := protocol.ParseUDPMessage(buf)
			verifAssert(err == nil, "fragment parses")
			pool = append(pool, m)
		}
	}
	steps := 5
	if verifThorough() {
		steps = 7
	}
	d := &Defragger{}
	emitted := 0
	for s := 0; s < steps; s++ {
		k := verifChoice("next", len(pool)+1)
		if k == len(pool) {
			break // the rest is lost
		}
		// feed a copy: the reassembler may keep and rewrite the message it is given
		src := pool[k]
		m := &protocol.UDPMessage{SessionID: src.SessionID, PacketID: src.PacketID, FragID: src.FragID, FragCount: src.FragCount, Addr: src.Addr, Data: src.Data}
		out := d.Feed(m)
		if out != nil {
			emitted++
			verifCover("emitted")
			if out.PacketID == pidA {
				verifAssert(zzEqual(out, a), "emitted message equals original A")
			} else {
				verifAssert(out.PacketID == pidB && zzEqual(out, b), "emitted message equals original B")
			}
			verifAssert(out.FragCount == 1 && out.FragID == 0, "emitted message is marked unfragmented")
		}
	}
	verifCover("done")
}

// In-order, complete delivery of one split message always emits it.
//
//verif:harness kind=api unwind=64 bound=payload<=8B,frags<=4
func ZZ_C05_InOrderDelivers() {
	n := 1 + verifChoice("len", 8)
	pid := verifUint16("pid")
	a := zzMsg("a", n, pid)
	per := 1 + verifChoice("per", 3)
	fs := FragUDPMessage(a, a.HeaderSize()+per)
	verifAssume(len(fs) >= 2 && len(fs) <= 4)
	d := &Defragger{}
	// the reassembler may hold an unrelated partial message first
	if verifBool("stale") {
		sp := verifUint16("stalePid")
		verifAssume(sp != pid) // the property quantifies over messages with distinct packet IDs
		d.Feed(&protocol.UDPMessage{PacketID: sp, FragID: 0, FragCount: uint8(2 + verifChoice("staleCnt", 3)), Addr: "x", Data: []byte{1}})
	}
	var out *protocol.UDPMessage
	for i := range fs {
		f := fs[i]
		r := d.Feed(&f)
		if i < len(fs)-1 {
			verifAssert(r == nil, "nothing is emitted before the last fragment")
		} else {
			out = r
		}
	}
	verifAssert(out != nil && zzEqual(out, a), "complete in-order delivery reassembles the original")
	verifCover("delivered")
}
