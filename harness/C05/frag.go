//go:build verif

//verif:pkg core/internal/frag
package frag

import (
	"github.com/apernet/hysteria/core/v2/internal/protocol"
)

// Arithmetic of FragUDPMessage for all sizes: payload 1..65535, address
// 1..2048, limit 0..65535 (symbolic lengths, opaque contents). The space is
// split exhaustively by the number k of fragments the sizes call for
// ((k-1)*budget < payload <= k*budget, k = 1..256, and "more than 256"), which
// keeps every solver query linear; quick explores the k listed in its filter,
// thorough all of them.
func zzFragArith(pick func(k int) bool) {
	verifSymAlloc(true)
	L := verifInt("payloadLen", 1, 65535)
	al := verifInt("addrLen", 1, 2048)
	lim := verifInt("limit", 0, 65535)
	m := &protocol.UDPMessage{
		SessionID: verifUint32("sid"),
		PacketID:  verifUint16("pid"),
		FragID:    0,
		FragCount: 1,
		Addr:      verifOpaqueString("addr", al),
		Data:      verifOpaqueBytes("data", L),
	}
	hdr := m.HeaderSize()
	if m.Size() > lim && lim > hdr {
		mp := lim - hdr
		k := verifChoice("k", 258)
		verifAssume(pick(k))
		if k <= 256 {
			verifAssume((k-1)*mp < L && L <= k*mp)
		} else {
			verifAssume(L > 256*mp)
		}
	}
	fs := FragUDPMessage(m, lim)
	if m.Size() <= lim {
		verifCover("fits")
		verifAssert(len(fs) == 1, "message that fits is returned as one message")
		return
	}
	if lim <= hdr {
		verifCover("limit-below-header")
		verifAssert(len(fs) == 0, "nothing is returned when the limit cannot hold the header")
		return
	}
	if len(fs) == 0 {
		// discarded: allowed only when more than 255 fragments would be needed
		verifCover("discarded")
		verifAssert(L > 255*(lim-hdr), "a message is discarded only if it needs more than 255 fragments")
		return
	}
	verifCover("split")
	verifAssert(len(fs) <= 255, "at most 255 fragments")
	verifAssert(len(fs) >= 2, "a split message has at least two fragments")
	// every fragment, through one symbolic index
	j := verifInt("j", 0, 254)
	verifAssume(j < len(fs))
	f := &fs[j]
	verifAssert(f.Size() <= lim, "every fragment fits the datagram limit")
	verifAssert(int(f.FragCount) == len(fs), "FragCount equals the number of fragments")
	verifAssert(int(f.FragID) == j, "FragID equals the index")
	verifAssert(len(f.Data) >= 1, "no empty fragment")
	verifAssert(f.SessionID == m.SessionID && f.PacketID == m.PacketID, "ids preserved")
	// the payload lengths add up
	n := verifConcretize(len(fs))
	fs = fs[:n]
	total := 0
	for i := 0; i < n; i++ {
		total += len(fs[i].Data)
	}
	verifAssert(total == L, "fragment payload lengths sum to the original length")
}

//verif:harness kind=api mode=int unwind=300 ifconv=off tier=quick bound=k∈{1..4,127,128,254..257}
func ZZ_C05_FragArith() {
	zzFragArith(func(k int) bool { return k <= 4 || k == 127 || k == 128 || k >= 254 })
}

//verif:harness kind=api mode=int unwind=300 ifconv=off tier=thorough bound=k∈{1..24,120..136,248..257}
func ZZ_C05_FragArithAll() {
	zzFragArith(func(k int) bool { return k <= 24 || (k >= 120 && k <= 136) || k >= 248 })
}
