//go:build verif

//verif:pkg core/server
package server

import (
	"errors"

	"github.com/apernet/hysteria/core/v2/internal/frag"
	"github.com/apernet/hysteria/core/v2/internal/protocol"
	"github.com/apernet/quic-go"
)

// the datagram layer under the sender: accepts a message only if its wire form
// fits the current limit, which may shrink after some accepted datagrams (path
// MTU changes); what it accepts is parsed back and handed to a real Defragger
type zzWire struct {
	limit     int
	shrinkTo  int
	shrinkAt  int // shrink after this many accepted datagrams (-1: never)
	accepted  int
	df        frag.Defragger
	delivered []*protocol.UDPMessage
	sizes     []int
}

func (w *zzWire) SendMessage(buf []byte, msg *protocol.UDPMessage) error {
	n := msg.Serialize(buf)
	if n < 0 {
		return nil
	}
	if n > w.limit {
		return &quic.DatagramTooLargeError{MaxDatagramPayloadSize: int64(w.limit)}
	}
	w.sizes = append(w.sizes, n)
	pm, err := protocol.ParseUDPMessage(append([]byte(nil), buf[:n]...))
	verifAssert(err == nil, "what the sender puts on the wire parses")
	if out := w.df.Feed(pm); out != nil {
		w.delivered = append(w.delivered, out)
	}
	w.accepted++
	if w.accepted == w.shrinkAt {
		w.limit = w.shrinkTo
	}
	return nil
}
func (w *zzWire) ReceiveMessage() (*protocol.UDPMessage, error) { return nil, errors.New("n/a") }
func (w *zzWire) Hook(data []byte, reqAddr *string) error       { return nil }
func (w *zzWire) UDP(reqAddr string) (UDPConn, error)           { return nil, errors.New("n/a") }
func (w *zzWire) CheckUDP(reqAddr string) error                 { return nil }

// The sending side of UDP fragmentation (sendMessageAutoFrag: whole first, then
// fragments at the limit the datagram layer reported), with the limit possibly
// shrinking after any number of accepted datagrams: every datagram put on the
// wire fits the limit in force, and the receiver's Defragger delivers either
// nothing or exactly the payload that was sent - never a mixture.
//
//verif:harness kind=api unwind=300 preempt=0 bound=payload∈5..12B(symbolic-bytes),limit∈14..18,shrink-by<=3-after<=3-datagrams
func ZZ_C05_AutoFragAllOrNothing() {
	n := 5 + verifChoice("payloadLen", 8)
	data := verifBytes("payload", n)
	w := &zzWire{limit: 14 + verifChoice("limit", 5), shrinkAt: -1}
	if verifChoice("shrinks", 2) == 1 {
		w.shrinkAt = 1 + verifChoice("shrinkAfter", 3)
		w.shrinkTo = w.limit - 1 - verifChoice("shrinkBy", 3)
	}
	msg := &protocol.UDPMessage{SessionID: 7, PacketID: 0, FragID: 0, FragCount: 1, Addr: "a:1", Data: append([]byte(nil), data...)}
	buf := make([]byte, 64)
	limits := []int{w.limit}
	err := sendMessageAutoFrag(w, buf, msg)
	_ = limits
	for _, s := range w.sizes {
		verifAssert(s <= 18, "no datagram exceeds the largest limit ever in force")
	}
	verifAssert(len(w.delivered) <= 1, "a message is delivered at most once")
	if len(w.delivered) == 1 {
		out := w.delivered[0]
		verifAssert(len(out.Data) == n, "a delivered message has the length that was sent")
		d := byte(0)
		for i := 0; i < n && i < len(out.Data); i++ {
			d |= out.Data[i] ^ data[i]
		}
		verifAssert(d == 0 && out.Addr == "a:1" && out.SessionID == 7, "and is byte-identical to it")
		verifCover("delivered")
	} else {
		verifCover("nothing-delivered")
	}
	if err == nil && w.shrinkAt < 0 {
		verifAssert(len(w.delivered) == 1, "with a stable limit the message arrives")
	}
}
