//go:build verif

//verif:pkg core/internal/protocol
package protocol

// The fragmenter budgets payload from HeaderSize() and checks fit with Size():
// both must be what Serialize really puts on the wire, for every address
// length around the varint boundaries (1, 63, 64, 65, 2047, 2048) and any
// small payload; and the wire form parses back to the same message.
//
//verif:harness kind=api unwind=4200 bound=addr∈{1,2,62,63,64,65,66,2047,2048},payload∈1..3B(symbolic)
func ZZ_C05_SizeMatchesWire() {
	al := []int{1, 2, 62, 63, 64, 65, 66, 2047, 2048}[verifChoice("addrLen", 9)]
	ab := make([]byte, al)
	for i := range ab {
		ab[i] = 'a'
	}
	if al > 0 {
		ab[0] = verifByte("addr0")
	}
	data := verifBytes("data", 1+verifChoice("dataLen", 3)) // the format needs at least one payload byte
	m := &UDPMessage{SessionID: verifUint32("sid"), PacketID: verifUint16("pid"), FragID: verifByte("fragID"), FragCount: verifByte("fragCount"), Addr: string(ab), Data: data}
	buf := make([]byte, 2200)
	n := m.Serialize(buf)
	verifAssert(n > 0, "the message fits the buffer")
	verifAssert(n == m.Size(), "Size() is the number of bytes Serialize writes")
	verifAssert(m.HeaderSize() == n-len(data), "HeaderSize() is the wire size without the payload")
	pm, err := ParseUDPMessage(buf[:n])
	verifAssert(err == nil && pm.SessionID == m.SessionID && pm.PacketID == m.PacketID && pm.FragID == m.FragID && pm.FragCount == m.FragCount && pm.Addr == m.Addr && len(pm.Data) == len(data), "and the wire form parses back to the same message")
	verifCover("sized")
}
