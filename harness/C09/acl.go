//go:build verif

//verif:pkg extras/outbounds/acl
package acl

import (
	"net"

	lru "github.com/hashicorp/golang-lru/v2"
)

// idna.ToUnicode: identity on the ASCII names explored here (no "xn--" labels).
//
//verif:model golang.org/x/net/idna.ToUnicode
func zzModelToUnicode(s string) (string, error) { return s, nil }

// host matcher whose verdict is an arbitrary bit (rule-order harnesses)
type zzBit struct{ bit bool }

func (m *zzBit) Match(HostInfo) bool { return m.bit }

func zzRule(i int) compiledRule[int] {
	r := compiledRule[int]{
		Outbound:    i + 1,
		HostMatcher: &zzBit{verifBool("hostMatches")},
		Protocol:    Protocol(verifInt("ruleProto", 0, 2)),
		StartPort:   verifUint16("start"),
		EndPort:     verifUint16("end"),
	}
	verifAssume(r.StartPort <= r.EndPort)
	if i%2 == 1 {
		r.HijackAddress = net.IPv4(10, 0, 0, byte(i+1))
	}
	return r
}

// the documented rule: protocol both or equal, port range unset (0) or containing the port
func zzRefRule(r *compiledRule[int], proto Protocol, port uint16) bool {
	protoOK := r.Protocol == ProtocolBoth || r.Protocol == proto
	portOK := r.StartPort == 0 || (port >= r.StartPort && port <= r.EndPort)
	return protoOK && portOK && r.HostMatcher.Match(HostInfo{})
}

func zzRefScan(rules []compiledRule[int], proto Protocol, port uint16) (int, net.IP) {
	for i := range rules {
		if zzRefRule(&rules[i], proto, port) {
			return rules[i].Outbound, rules[i].HijackAddress
		}
	}
	return 0, nil
}

func zzSameIP(a, b net.IP) bool {
	if len(a) != len(b) {
		return false
	}
	for i := range a {
		if a[i] != b[i] {
			return false
		}
	}
	return true
}

// First match in file order, default when none, for arbitrary protocol/port
// fields and host verdicts; and the answer to a lookup does not depend on the
// lookups made before it (cache of 2 entries, so eviction happens too).
//
//verif:harness kind=api unwind=64 bound=rules<=2,queries<=2,hosts=2(quick)/4(thorough),cache=2-entries
func ZZ_C09_FirstMatchAndCache() {
	nr := 1 + verifChoice("rules", 2) // three symbolic rules do not finish within the thorough budget
	rules := make([]compiledRule[int], nr)
	for i := range rules {
		rules[i] = zzRule(i)
	}
	cache, err := lru.New[matchResultCacheKey, matchResult[int]](2)
	verifAssert(err == nil, "cache")
	rs := &compiledRuleSetImpl[int]{Rules: rules, Cache: cache}
	hosts := []HostInfo{
		{Name: "a.example"},
		{Name: "a.example", IPv4: net.IPv4(1, 2, 3, 4)},
	}
	if verifThorough() {
		hosts = append(hosts, HostInfo{IPv4: net.IPv4(1, 2, 3, 4)}, HostInfo{IPv6: net.ParseIP("2001:db8::1")})
	}
	nq := 2 // a third query does not finish within the thorough budget
	for q := 0; q < nq; q++ {
		h := hosts[verifChoice("host", len(hosts))]
		proto := Protocol(verifInt("proto", 1, 2))
		port := verifUint16("port")
		ob, hij := rs.Match(h, proto, port)
		wantOb, wantHij := zzRefScan(rules, proto, port)
		verifAssert(ob == wantOb, "outbound of the first matching rule (default when none), whatever was looked up before")
		verifAssert(zzSameIP(hij, wantHij), "hijack address of the first matching rule")
	}
	verifCover("scanned")
}

// reference host-pattern semantics from the ACL documentation (ASCII)
func zzLower(s string) string {
	b := []byte(s)
	for i := range b {
		if b[i] >= 'A' && b[i] <= 'Z' {
			b[i] += 32
		}
	}
	return string(b)
}

func zzTrimDots(s string) string {
	for len(s) > 0 && s[len(s)-1] == '.' {
		s = s[:len(s)-1]
	}
	return s
}

func zzGlob(s, p string) bool {
	if len(p) == 0 {
		return len(s) == 0
	}
	if p[0] == '*' {
		for k := 0; k <= len(s); k++ {
			if zzGlob(s[k:], p[1:]) {
				return true
			}
		}
		return false
	}
	return len(s) > 0 && s[0] == p[0] && zzGlob(s[1:], p[1:])
}

func zzHasStar(p string) bool {
	for i := 0; i < len(p); i++ {
		if p[i] == '*' {
			return true
		}
	}
	return false
}

func zzRefHost(name, pattern string, suffix bool) bool {
	n := zzTrimDots(zzLower(name))
	p := zzTrimDots(zzLower(pattern))
	if suffix {
		return n == p || (len(n) > len(p) && n[len(n)-len(p)-1] == '.' && n[len(n)-len(p):] == p)
	}
	if p == "*" || p == "all" {
		return true
	}
	if zzHasStar(p) {
		return zzGlob(n, p)
	}
	return n == p
}

func zzAlpha(tag string, n int, set string) string {
	b := verifBytes(tag, n)
	for i := range b {
		ok := false
		for j := 0; j < len(set); j++ {
			if b[i] == set[j] {
				ok = true
			}
		}
		verifAssume(ok)
	}
	return string(b)
}

// Host patterns (exact, suffix:, wildcard) against the documented semantics,
// through Compile and the rule set (case folding and trailing dots included).
//
//verif:harness kind=api unwind=64 bound=name<=3(quick)/4(thorough)over{a,B,.},pattern<=3(quick)/4(thorough)over{a,B,*,.}
func ZZ_C09_HostPatterns() {
	nl, pl := 3, 3
	if verifThorough() {
		nl, pl = 4, 4
	}
	name := zzAlpha("name", 1+verifChoice("nameLen", nl), "aB.")
	pat := zzAlpha("pat", 1+verifChoice("patLen", pl), "aB*.")
	suffix := verifBool("suffix")
	verifAssume(zzTrimDots(pat) != "") // an empty pattern is a configuration error, not a matcher
	if suffix {
		verifAssume(!zzHasStar(pat))
	}
	addr := pat
	if suffix {
		addr = "suffix:" + pat
	}
	rs, err := Compile([]TextRule{{Outbound: "o", Address: addr}}, map[string]int{"o": 7}, 4, nil)
	verifAssert(err == nil, "pattern compiles")
	ob, _ := rs.Match(HostInfo{Name: name}, ProtocolTCP, 80)
	verifAssert((ob == 7) == zzRefHost(name, pat, suffix), "host pattern matches exactly the documented set of names")
	verifCover("matched")
}

//verif:harness kind=api unwind=64
func ZZ_C09_IPAndCIDR() {
	rs, err := Compile([]TextRule{
		{Outbound: "a", Address: "10.0.0.0/8", ProtoPort: "tcp/80-90"},
		{Outbound: "b", Address: "2001:db8::/32"},
		{Outbound: "c", Address: "1.2.3.4", ProtoPort: "udp"},
	}, map[string]int{"a": 1, "b": 2, "c": 3}, 4, nil)
	verifAssert(err == nil, "rules compile")
	last := verifByte("last")
	port := verifUint16("port")
	ob, _ := rs.Match(HostInfo{IPv4: net.IPv4(10, 9, 8, last)}, ProtocolTCP, port)
	verifAssert((ob == 1) == (port >= 80 && port <= 90), "CIDR rule with a TCP port range")
	ob, _ = rs.Match(HostInfo{IPv6: net.ParseIP("2001:db8::5")}, ProtocolUDP, port)
	verifAssert(ob == 2, "IPv6 CIDR, any protocol and port")
	ob, _ = rs.Match(HostInfo{IPv4: net.IPv4(1, 2, 3, last)}, ProtocolUDP, port)
	verifAssert((ob == 3) == (last == 4), "single IP rule, UDP only")
	ob, _ = rs.Match(HostInfo{IPv4: net.IPv4(1, 2, 3, 4)}, ProtocolTCP, port)
	verifAssert(ob == 0, "no rule for TCP to that IP: default outbound")
	verifCover("ip")
}

func zzNum(ds []byte) (uint32, bool) {
	v := uint32(0)
	for _, d := range ds {
		v = v*10 + uint32(d-'0')
		if v > 65535 {
			return 0, false
		}
	}
	return v, len(ds) > 0
}

// Protocol/port specifications from the rule TEXT through Compile to Match:
// "<proto>/<N>" and "<proto>/<N>-<M>" with symbolic digits (so every port
// number, 65535 and the first invalid one included), for tcp, udp and *: the
// rule is rejected exactly when a number exceeds 65535 or the range is
// reversed, and otherwise applies to exactly the ports N..M inclusive of the
// named protocol(s).
//
//verif:harness kind=api unwind=64 bound=numbers:3-or-5-symbolic-digits,shapes{N;N-M},3-protocol-words
func ZZ_C09_ProtoPortText() {
	k := []int{3, 5}[verifChoice("digits", 2)]
	a, b := verifBytes("n", k), verifBytes("m", k)
	for i := 0; i < k; i++ {
		verifAssume(a[i] >= '0' && a[i] <= '9' && b[i] >= '0' && b[i] <= '9')
	}
	word := []string{"tcp", "udp", "*"}[verifChoice("protoWord", 3)]
	isRange := verifChoice("range", 2) == 1
	spec := word + "/" + string(a)
	if isRange {
		spec += "-" + string(b)
	}
	n, okN := zzNum(a)
	m, okM := n, okN
	if isRange {
		m, okM = zzNum(b)
	}
	valid := okN && okM && n <= m
	rs, err := Compile([]TextRule{{Outbound: "o", Address: "all", ProtoPort: spec}}, map[string]int{"o": 7}, 4, nil)
	if !valid {
		verifCover("rejected")
		verifAssert(err != nil, "a port above 65535 or a reversed range is a configuration error")
		return
	}
	verifAssert(err == nil, "a valid specification compiles")
	proto := Protocol(verifInt("proto", 1, 2))
	port := verifUint16("port")
	ob, _ := rs.Match(HostInfo{Name: "x.example"}, proto, port)
	protoOK := word == "*" || (word == "tcp") == (proto == ProtocolTCP)
	// a range starting at 0 means "any port" in the compiled form; the text cannot mean anything else for 0-M
	inRange := uint32(port) >= n && uint32(port) <= m
	if n == 0 {
		verifCover("from-zero")
		return
	}
	verifAssert((ob == 7) == (protoOK && inRange), "the rule applies to exactly the ports N..M (inclusive) of the named protocol")
	verifCover("matched")
}

// Rule LISTS from text through Compile: two (thorough: three) rules, each
// with an address form (all / suffix / exact name) and a protocol-port form
// (none, tcp, udp/53, */53, */100-200); the answer for any host, protocol and
// port is the outbound of the first rule that matches by the documented
// semantics - no rule is dropped or reordered by compilation.
//
//verif:harness kind=api unwind=64 bound=rules=2,6-address-forms(incl.-CIDR-and-/0),3(quick)/5(thorough)-proto-port-forms,5-host-kinds(names,IPv4-only,IPv6-only),port:any
func ZZ_C09_RuleListFromText() {
	n := 2
	addrs := []string{"all", "suffix:a.example", "b.example", "10.0.0.0/8", "0.0.0.0/0", "::/0"}
	pps := []string{"", "*/53", "*/100-200", "tcp", "udp/53"}
	npp := 3 // quick: the first three forms
	if verifThorough() {
		npp = len(pps)
	}
	obs := map[string]int{"o1": 1, "o2": 2, "o3": 3}
	var rules []TextRule
	ak, pk := make([]int, n), make([]int, n)
	for i := 0; i < n; i++ {
		ak[i], pk[i] = verifChoice("address", len(addrs)), verifChoice("protoPort", npp)
		rules = append(rules, TextRule{Outbound: []string{"o1", "o2", "o3"}[i], Address: addrs[ak[i]], ProtoPort: pps[pk[i]]})
	}
	rs, err := Compile(rules, obs, 4, nil)
	verifAssert(err == nil, "the rule list compiles")
	hk := verifChoice("host", 5)
	host := []string{"x.a.example", "b.example", "c.other", "v4.only", "v6.only"}[hk]
	hi := HostInfo{Name: host}
	has4, has6, in10 := false, false, false
	switch hk {
	case 3: // resolved to an IPv4 address only (inside 10/8 or not)
		in10 = verifBool("in10")
		if in10 {
			hi.IPv4 = net.IPv4(10, 1, 2, 3)
		} else {
			hi.IPv4 = net.IPv4(192, 0, 2, 1)
		}
		has4 = true
	case 4: // resolved to an IPv6 address only
		hi.IPv6 = net.ParseIP("2001:db8::7")
		has6 = true
	}
	proto := Protocol(verifInt("proto", 1, 2))
	port := verifUint16("port")
	want := 0
	for i := 0; i < n && want == 0; i++ {
		addrOK := ak[i] == 0 || (ak[i] == 1 && host == "x.a.example") || (ak[i] == 2 && host == "b.example") ||
			(ak[i] == 3 && has4 && in10) || (ak[i] == 4 && has4) || (ak[i] == 5 && has6)
		ppOK := false
		switch pk[i] {
		case 0:
			ppOK = true
		case 1:
			ppOK = port == 53
		case 2:
			ppOK = port >= 100 && port <= 200
		case 3:
			ppOK = proto == ProtocolTCP
		case 4:
			ppOK = proto == ProtocolUDP && port == 53
		}
		if addrOK && ppOK {
			want = i + 1
		}
	}
	ob, _ := rs.Match(hi, proto, port)
	verifAssert(ob == want, "the first matching rule of the list answers (default when none)")
	verifCover("answered")
}
