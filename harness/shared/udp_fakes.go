//go:build verif

//verif:pkg core/server
package server

import (
	"errors"

	"github.com/apernet/hysteria/core/v2/internal/protocol"
)

// ---- fakes for the server's UDP session machinery (no QUIC involved) ----

type zzUDPConn struct {
	id      int
	owner   uint32   // session that dialled it
	writes  []string // destinations written to
	payloads [][]byte // what was written
	wsess   []uint32 // (filled by the harness when needed)
	closes  int
	replies chan zzReply // replies from "the Internet"; closed = socket error
	closed  chan struct{} // closed by Close(): unblocks a pending ReadFrom like a real socket
	io      *zzUDPIO
}

type zzReply struct {
	data []byte
	from string
}

func (c *zzUDPConn) ReadFrom(b []byte) (int, string, error) {
	select {
	case r, ok := <-c.replies:
		if !ok {
			return 0, "", errors.New("socket read error")
		}
		return copy(b, r.data), r.from, nil
	case <-c.closed:
		return 0, "", errors.New("use of closed socket")
	}
}

func (c *zzUDPConn) WriteTo(b []byte, addr string) (int, error) {
	if c.closes > 0 {
		return 0, errors.New("use of closed socket") // a write racing a close just fails
	}
	c.writes = append(c.writes, addr)
	c.payloads = append(c.payloads, append([]byte(nil), b...))
	if c.io.writeErr {
		return 0, errors.New("write error")
	}
	return len(b), nil
}

func (c *zzUDPConn) Close() error {
	c.closes++
	if c.closes == 1 {
		close(c.closed)
	}
	return nil
}

type zzSent struct {
	sid  uint32
	addr string
	n    int
}

type zzUDPIO struct {
	allow    map[string]bool // the outbound policy
	hookTo   string          // request hook rewrites the destination to this (if non-empty)
	in       chan *protocol.UDPMessage
	conns    []*zzUDPConn
	checks   []string
	dials    []string
	sent     []zzSent
	dialErr  bool
	sendErr  bool
	writeErr bool
	curSess  uint32
	dialGate chan struct{} // when set, a dial takes until a token arrives (slow DNS, slow hook)
	dialing  int
}

func (io *zzUDPIO) ReceiveMessage() (*protocol.UDPMessage, error) {
	m, ok := <-io.in
	if !ok {
		return nil, errors.New("connection lost")
	}
	return m, nil
}

func (io *zzUDPIO) SendMessage(buf []byte, msg *protocol.UDPMessage) error {
	if io.sendErr {
		return errors.New("send error")
	}
	io.sent = append(io.sent, zzSent{msg.SessionID, msg.Addr, len(msg.Data)})
	return nil
}

func (io *zzUDPIO) Hook(data []byte, reqAddr *string) error {
	if io.hookTo != "" {
		*reqAddr = io.hookTo
	}
	return nil
}

// the outbound is consistent: dialling a destination fails exactly when the policy rejects it
func (io *zzUDPIO) UDP(reqAddr string) (UDPConn, error) {
	io.dials = append(io.dials, reqAddr)
	if io.dialGate != nil {
		io.dialing++
		<-io.dialGate
		io.dialing--
	}
	if io.dialErr || !io.allow[reqAddr] {
		return nil, errors.New("rejected by policy")
	}
	c := &zzUDPConn{id: len(io.conns), owner: io.curSess, replies: make(chan zzReply, 4), closed: make(chan struct{}), io: io}
	io.conns = append(io.conns, c)
	return c, nil
}

func (io *zzUDPIO) CheckUDP(reqAddr string) error {
	io.checks = append(io.checks, reqAddr)
	if !io.allow[reqAddr] {
		return errors.New("rejected by policy")
	}
	return nil
}

type zzUDPLog struct {
	news   []uint32
	closes []uint32
}

func (l *zzUDPLog) New(sessionID uint32, reqAddr string) { l.news = append(l.news, sessionID) }
func (l *zzUDPLog) Close(sessionID uint32, err error)    { l.closes = append(l.closes, sessionID) }

func zzDgram(sid uint32, addr string, payload byte) *protocol.UDPMessage {
	return &protocol.UDPMessage{SessionID: sid, PacketID: 0, FragID: 0, FragCount: 1, Addr: addr, Data: []byte{payload}}
}
