//go:build verif

//verif:pkg extras/realm
package realm

// pion's XorBytes works word-wise through unsafe pointers; byte-wise here.
//
//verif:model github.com/pion/transport/v4/utils/xor.XorBytes
func zzModelXorBytes(dst, a, b []byte) int {
	n := len(a)
	if len(b) < n {
		n = len(b)
	}
	for i := 0; i < n; i++ {
		dst[i] = a[i] ^ b[i]
	}
	return n
}
