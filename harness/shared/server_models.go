//go:build verif

//verif:pkg core/server
package server

import (
	"context"
	"errors"
	"net"
	"net/http"
	"time"

	"github.com/apernet/hysteria/core/v2/internal/congestion/brutal"
	"github.com/apernet/quic-go"
	qcongestion "github.com/apernet/quic-go/congestion"
)

// ---------------------------------------------------------------------------
// Solver-side models of the quic-go objects the server handler is written
// against. A *quic.Conn / *quic.Stream is only an identity here; its behaviour
// lives in the tables below. quic-go itself is outside every claim.
// ---------------------------------------------------------------------------

type zzConnState struct {
	cc        qcongestion.CongestionControl // last controller installed
	ccSet     int
	closed    bool
	closeCode quic.ApplicationErrorCode
	inDgrams  [][]byte // datagrams the peer sent, not yet received
	outDgrams [][]byte
}

var zzConns = map[*quic.Conn]*zzConnState{}

func zzConn(c *quic.Conn) *zzConnState {
	s, ok := zzConns[c]
	if !ok {
		s = &zzConnState{}
		zzConns[c] = s
	}
	return s
}

type zzNetAddr struct{ s string }

func (a zzNetAddr) Network() string { return "udp" }
func (a zzNetAddr) String() string  { return a.s }

//verif:model (*github.com/apernet/quic-go.Conn).RemoteAddr
func zzModelConnRemoteAddr(c *quic.Conn) net.Addr { return zzNetAddr{"192.0.2.1:40000"} }

//verif:model (*github.com/apernet/quic-go.Conn).SetCongestionControl
func zzModelConnSetCC(c *quic.Conn, cc qcongestion.CongestionControl) {
	s := zzConn(c)
	s.cc = cc
	s.ccSet++
}

//verif:model (*github.com/apernet/quic-go.Conn).InitialPacketSize
func zzModelConnInitialPacketSize(c *quic.Conn) qcongestion.ByteCount { return 1252 }

//verif:model (*github.com/apernet/quic-go.Conn).CloseWithError
func zzModelConnCloseWithError(c *quic.Conn, code quic.ApplicationErrorCode, msg string) error {
	s := zzConn(c)
	s.closed = true
	s.closeCode = code
	return nil
}

//verif:model (*github.com/apernet/quic-go.Conn).ReceiveDatagram
func zzModelConnReceiveDatagram(c *quic.Conn, ctx context.Context) ([]byte, error) {
	s := zzConn(c)
	if len(s.inDgrams) == 0 {
		return nil, errors.New("connection closed")
	}
	d := s.inDgrams[0]
	s.inDgrams = s.inDgrams[1:]
	return d, nil
}

//verif:model (*github.com/apernet/quic-go.Conn).SendDatagram
func zzModelConnSendDatagram(c *quic.Conn, b []byte) error {
	s := zzConn(c)
	s.outDgrams = append(s.outDgrams, append([]byte(nil), b...))
	return nil
}

// Brutal's constructor: the rate handed to it is what gets enforced on the wire.
var zzBrutalRate = map[*brutal.BrutalSender]uint64{}

//verif:model github.com/apernet/hysteria/core/v2/internal/congestion/brutal.NewBrutalSender
func zzModelNewBrutalSender(bps uint64, disableLossCompensation bool) *brutal.BrutalSender {
	b := &brutal.BrutalSender{}
	zzBrutalRate[b] = bps
	return b
}

// streams
type zzStreamState struct {
	in        []byte // bytes the client wrote, not yet read
	out       []byte // bytes written to the client
	closed    bool
	readCxl   bool
	eofAtEnd  bool
	ops       int
}

var zzStreams = map[*quic.Stream]*zzStreamState{}

func zzStream(s *quic.Stream) *zzStreamState {
	st, ok := zzStreams[s]
	if !ok {
		st = &zzStreamState{}
		zzStreams[s] = st
	}
	return st
}

//verif:model (*github.com/apernet/quic-go.Stream).StreamID
func zzModelStreamID(s *quic.Stream) quic.StreamID { return 4 }

//verif:model (*github.com/apernet/quic-go.Stream).Read
func zzModelStreamRead(s *quic.Stream, p []byte) (int, error) {
	st := zzStream(s)
	st.ops++
	if st.readCxl {
		return 0, errors.New("read canceled")
	}
	if len(st.in) == 0 {
		return 0, errors.New("stream closed by peer")
	}
	n := copy(p, st.in)
	st.in = st.in[n:]
	return n, nil
}

//verif:model (*github.com/apernet/quic-go.Stream).Write
func zzModelStreamWrite(s *quic.Stream, p []byte) (int, error) {
	st := zzStream(s)
	st.ops++
	if st.closed {
		return 0, errors.New("write on closed stream")
	}
	st.out = append(st.out, p...)
	return len(p), nil
}

//verif:model (*github.com/apernet/quic-go.Stream).Close
func zzModelStreamClose(s *quic.Stream) error {
	st := zzStream(s)
	st.ops++
	st.closed = true
	return nil
}

//verif:model (*github.com/apernet/quic-go.Stream).CancelRead
func zzModelStreamCancelRead(s *quic.Stream, code quic.StreamErrorCode) {
	st := zzStream(s)
	st.ops++
	st.readCxl = true
}

//verif:model (*github.com/apernet/quic-go.Stream).CancelWrite
func zzModelStreamCancelWrite(s *quic.Stream, code quic.StreamErrorCode) { zzStream(s).ops++ }

//verif:model (*github.com/apernet/quic-go.Stream).SetReadDeadline
func zzModelStreamSetReadDeadline(s *quic.Stream, t time.Time) error { return nil }

//verif:model (*github.com/apernet/quic-go.Stream).SetWriteDeadline
func zzModelStreamSetWriteDeadline(s *quic.Stream, t time.Time) error { return nil }

//verif:model (*github.com/apernet/quic-go.Stream).SetDeadline
func zzModelStreamSetDeadline(s *quic.Stream, t time.Time) error { return nil }

// ---------------------------------------------------------------------------
// Fakes for the server's configuration interfaces
// ---------------------------------------------------------------------------

// recording ResponseWriter: every operation the server issues is logged
type zzRW struct {
	hdr       http.Header
	hdrCalls  int
	status    int
	whCalls   int
	wrCalls   int
	body      []byte
}

func (w *zzRW) Header() http.Header {
	w.hdrCalls++
	if w.hdr == nil {
		w.hdr = http.Header{}
	}
	return w.hdr
}
func (w *zzRW) WriteHeader(code int) { w.whCalls++; w.status = code }
func (w *zzRW) Write(b []byte) (int, error) {
	w.wrCalls++
	w.body = append(w.body, b...)
	return len(b), nil
}
func (w *zzRW) untouched() bool { return w.hdrCalls == 0 && w.whCalls == 0 && w.wrCalls == 0 }

type zzAuthCall struct {
	auth string
	tx   uint64
}

type zzAuth struct {
	verdicts []bool // verdict of the i-th call (true beyond the list)
	calls    []zzAuthCall
}

func (a *zzAuth) Authenticate(addr net.Addr, auth string, tx uint64) (bool, string) {
	i := len(a.calls)
	a.calls = append(a.calls, zzAuthCall{auth, tx})
	ok := true
	if i < len(a.verdicts) {
		ok = a.verdicts[i]
	}
	return ok, "user1"
}

type zzEvents struct {
	connects    []uint64
	disconnects int
	tcpReqs     []string
	udpReqs     []string
}

func (e *zzEvents) Connect(addr net.Addr, id string, tx uint64)                       { e.connects = append(e.connects, tx) }
func (e *zzEvents) Disconnect(addr net.Addr, id string, err error)                    { e.disconnects++ }
func (e *zzEvents) TCPRequest(addr net.Addr, id, reqAddr string)                      { e.tcpReqs = append(e.tcpReqs, reqAddr) }
func (e *zzEvents) TCPError(addr net.Addr, id, reqAddr string, err error)             {}
func (e *zzEvents) UDPRequest(addr net.Addr, id string, sessionID uint32, reqAddr string) {
	e.udpReqs = append(e.udpReqs, reqAddr)
}
func (e *zzEvents) UDPError(addr net.Addr, id string, sessionID uint32, err error) {}

type zzMasq struct {
	calls int
	w     http.ResponseWriter
	r     *http.Request
}

func (m *zzMasq) ServeHTTP(w http.ResponseWriter, r *http.Request) {
	m.calls++
	m.w, m.r = w, r
}

// http.NotFound is observed, not executed: it is what the server delegates to
// when no masquerade handler is configured.
var zzNotFound zzMasq

//verif:model net/http.NotFound
func zzModelNotFound(w http.ResponseWriter, r *http.Request) {
	zzNotFound.calls++
	zzNotFound.w, zzNotFound.r = w, r
}

func zzAuthRequest(method, host, path, auth, rx string, hasRx bool) *http.Request {
	h := http.Header{}
	h["Hysteria-Auth"] = []string{auth}
	if hasRx {
		h["Hysteria-Cc-Rx"] = []string{rx}
	}
	return zzRequest(method, host, path, h)
}
