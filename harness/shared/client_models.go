//go:build verif

//verif:pkg core/client
package client

import (
	"context"
	"crypto/tls"
	"errors"
	"net"
	"net/http"
	"time"

	"github.com/apernet/hysteria/core/v2/internal/congestion/brutal"
	"github.com/apernet/quic-go"
	qcongestion "github.com/apernet/quic-go/congestion"
	"github.com/apernet/quic-go/http3"
)

// ---------------------------------------------------------------------------
// Solver-side models of quic-go as seen by the client: a *quic.Conn is an
// identity whose behaviour lives in zzConns; http3.Transport.RoundTrip dials
// through the Dial callback it was given and hands back the scripted response.
// ---------------------------------------------------------------------------

type zzConnState struct {
	cc         qcongestion.CongestionControl
	ccSet      int
	closed     bool
	streamErr  error // error OpenStream returns (nil: ok)
	gate       chan struct{} // when set, OpenStream waits for a token first (a call in flight)
	waiting    int
	streams    int
}

var zzConns = map[*quic.Conn]*zzConnState{}
var zzConnList []*quic.Conn

func zzConn(c *quic.Conn) *zzConnState {
	s, ok := zzConns[c]
	if !ok {
		s = &zzConnState{}
		zzConns[c] = s
	}
	return s
}

type zzNetAddr struct{ s string }

func (a zzNetAddr) Network() string { return "udp" }
func (a zzNetAddr) String() string  { return a.s }

// the scripted server side of the handshake
type zzServerScript struct {
	dialErr    error
	status     int
	header     http.Header
	lastReq    *http.Request
	roundTrips int
	dialGate   chan struct{} // when set, a dial waits for a token (a handshake in progress)
	dialing    int
}

var zzServer = &zzServerScript{status: 233, header: http.Header{}}

//verif:model (*github.com/apernet/quic-go.Transport).DialEarly
func zzModelDialEarly(t *quic.Transport, ctx context.Context, addr net.Addr, tlsConf *tls.Config, conf *quic.Config) (*quic.Conn, error) {
	if zzServer.dialGate != nil {
		zzServer.dialing++
		<-zzServer.dialGate
		zzServer.dialing--
	}
	if zzServer.dialErr != nil {
		return nil, zzServer.dialErr
	}
	c := &quic.Conn{}
	zzConn(c)
	zzConnList = append(zzConnList, c)
	return c, nil
}

//verif:model (*github.com/apernet/quic-go.Transport).Close
func zzModelTransportClose(t *quic.Transport) error { return nil }

//verif:model (*github.com/apernet/quic-go/http3.Transport).RoundTrip
func zzModelRoundTrip(t *http3.Transport, req *http.Request) (*http.Response, error) {
	zzServer.roundTrips++
	zzServer.lastReq = req
	if _, err := t.Dial(context.Background(), "", t.TLSClientConfig, t.QUICConfig); err != nil {
		return nil, err
	}
	return &http.Response{StatusCode: zzServer.status, Header: zzServer.header, Body: http.NoBody}, nil
}

//verif:model (*github.com/apernet/quic-go.Conn).RemoteAddr
func zzModelConnRemoteAddr(c *quic.Conn) net.Addr { return zzNetAddr{"198.51.100.1:443"} }

//verif:model (*github.com/apernet/quic-go.Conn).SetCongestionControl
func zzModelConnSetCC(c *quic.Conn, cc qcongestion.CongestionControl) {
	s := zzConn(c)
	s.cc = cc
	s.ccSet++
}

//verif:model (*github.com/apernet/quic-go.Conn).InitialPacketSize
func zzModelConnInitialPacketSize(c *quic.Conn) qcongestion.ByteCount { return 1252 }

//verif:model (*github.com/apernet/quic-go.Conn).CloseWithError
func zzModelConnCloseWithError(c *quic.Conn, code quic.ApplicationErrorCode, msg string) error {
	zzConn(c).closed = true
	return nil
}

//verif:model (*github.com/apernet/quic-go.Conn).ConnectionState
func zzModelConnConnectionState(c *quic.Conn) quic.ConnectionState { return quic.ConnectionState{} }

//verif:model (*github.com/apernet/quic-go.Conn).OpenStream
func zzModelConnOpenStream(c *quic.Conn) (*quic.Stream, error) {
	s := zzConn(c)
	if s.gate != nil {
		s.waiting++
		<-s.gate
		s.waiting--
	}
	if s.closed {
		return nil, net.ErrClosed
	}
	if s.streamErr != nil {
		return nil, s.streamErr
	}
	s.streams++
	return &quic.Stream{}, nil
}

var zzBrutalRate = map[*brutal.BrutalSender]uint64{}

//verif:model github.com/apernet/hysteria/core/v2/internal/congestion/brutal.NewBrutalSender
func zzModelNewBrutalSender(bps uint64, disableLossCompensation bool) *brutal.BrutalSender {
	b := &brutal.BrutalSender{}
	zzBrutalRate[b] = bps
	return b
}

// transport sockets handed out by the connection factory, with a census
type zzSock struct {
	id     int
	closes int
}

func (s *zzSock) ReadFrom(p []byte) (int, net.Addr, error)  { return 0, nil, errors.New("closed") }
func (s *zzSock) WriteTo(p []byte, a net.Addr) (int, error) { return len(p), nil }
func (s *zzSock) Close() error                              { s.closes++; return nil }
func (s *zzSock) LocalAddr() net.Addr                       { return zzNetAddr{"local"} }
func (s *zzSock) SetDeadline(t time.Time) error             { return nil }
func (s *zzSock) SetReadDeadline(t time.Time) error         { return nil }
func (s *zzSock) SetWriteDeadline(t time.Time) error        { return nil }

type zzFactory struct {
	socks   []*zzSock
	failNew bool
}

func (f *zzFactory) New(net.Addr) (net.PacketConn, error) {
	if f.failNew {
		return nil, errors.New("cannot create socket")
	}
	s := &zzSock{id: len(f.socks)}
	f.socks = append(f.socks, s)
	return s, nil
}

func (f *zzFactory) open() int {
	n := 0
	for _, s := range f.socks {
		if s.closes == 0 {
			n++
		}
	}
	return n
}
