//go:build verif

//verif:pkg core/client
package client

import (
	"errors"
	"net"
	"time"

	"github.com/apernet/quic-go"
)

// streams as seen by the client (solver-side models)
type zzStreamState struct {
	in     []byte // what the server wrote, not yet read
	out    []byte // what the client wrote
	closed bool
	ops    []string
}

// what the server will have written on the next stream the client opens, and
// how many bytes one Read hands out at most (0: everything available)
var zzNextStreamIn []byte
var zzStreamChunk int

var zzStreams = map[*quic.Stream]*zzStreamState{}
var zzStreamList []*quic.Stream

func zzStream(s *quic.Stream) *zzStreamState {
	st, ok := zzStreams[s]
	if !ok {
		st = &zzStreamState{in: zzNextStreamIn}
		zzNextStreamIn = nil
		zzStreams[s] = st
		zzStreamList = append(zzStreamList, s)
	}
	return st
}

//verif:model (*github.com/apernet/quic-go.Stream).StreamID
func zzModelStreamID(s *quic.Stream) quic.StreamID { return 0 }

//verif:model (*github.com/apernet/quic-go.Stream).Read
func zzModelStreamRead(s *quic.Stream, p []byte) (int, error) {
	st := zzStream(s)
	st.ops = append(st.ops, "read")
	if len(st.in) == 0 {
		return 0, errors.New("stream reset")
	}
	if zzStreamChunk > 0 && len(p) > zzStreamChunk {
		p = p[:zzStreamChunk]
	}
	n := copy(p, st.in)
	st.in = st.in[n:]
	return n, nil
}

//verif:model (*github.com/apernet/quic-go.Stream).Write
func zzModelStreamWrite(s *quic.Stream, p []byte) (int, error) {
	st := zzStream(s)
	st.ops = append(st.ops, "write")
	st.out = append(st.out, p...)
	return len(p), nil
}

//verif:model (*github.com/apernet/quic-go.Stream).Close
func zzModelStreamClose(s *quic.Stream) error {
	st := zzStream(s)
	st.ops = append(st.ops, "close")
	st.closed = true
	return nil
}

//verif:model (*github.com/apernet/quic-go.Stream).CancelRead
func zzModelStreamCancelRead(s *quic.Stream, code quic.StreamErrorCode) {
	st := zzStream(s)
	st.ops = append(st.ops, "cancelread")
}

//verif:model (*github.com/apernet/quic-go.Stream).CancelWrite
func zzModelStreamCancelWrite(s *quic.Stream, code quic.StreamErrorCode) {
	st := zzStream(s)
	st.ops = append(st.ops, "cancelwrite")
}

//verif:model (*github.com/apernet/quic-go.Stream).SetReadDeadline
func zzModelStreamSetReadDeadline(s *quic.Stream, t time.Time) error { return nil }

//verif:model (*github.com/apernet/quic-go.Stream).SetWriteDeadline
func zzModelStreamSetWriteDeadline(s *quic.Stream, t time.Time) error { return nil }

//verif:model (*github.com/apernet/quic-go.Stream).SetDeadline
func zzModelStreamSetDeadline(s *quic.Stream, t time.Time) error { return nil }

//verif:model (*github.com/apernet/quic-go.Conn).LocalAddr
func zzModelConnLocalAddr(c *quic.Conn) net.Addr { return zzNetAddr{"local:1"} }
