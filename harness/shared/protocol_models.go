//go:build verif

//verif:pkg core/internal/protocol
package protocol

// padding.String() by its contract (solver side): arbitrary bytes, here of the
// minimum length (the handlers under test never look at the padding).
//
//verif:model (github.com/apernet/hysteria/core/v2/internal/protocol.padding).String
func zzModelPaddingMin(p padding) string {
	return verifString("pad", 4)
}
