//go:build verif

//verif:pkg core/server
package server

import (
	"net/http"
	"net/url"
)

func zzRequest(method, host, path string, h http.Header) *http.Request {
	return &http.Request{Method: method, Host: host, URL: &url.URL{Path: path}, Header: h}
}
