//go:build verif

//verif:pkg extras/transport/udphop
package udphop

import (
	"net"
	"time"

	"github.com/apernet/hysteria/extras/v2/utils"
)

// Every hop-interval configuration (min and max in whole seconds, symbolic),
// the first socket creation succeeding or failing: a refused configuration or
// a failed creation returns no hopping socket and leaves no real socket open;
// an accepted one starts with exactly one socket, does not hop before the
// minimum interval has passed, has hopped (perhaps more than once) when the
// maximum has, and Close
// closes every socket ever opened.
//
//verif:harness kind=api replay=interp unwind=64 preempt=0 bound=min,max∈[0,12]s-symbolic(0,0=default-30s),first-listen-ok/failing,time-up-to-max+1s
func ZZ_C19_AnyIntervalConfiguration() {
	pu := utils.ParsePortUnion("20000-20001")
	addr := &UDPHopAddr{IP: net.IP{127, 0, 0, 1}, Ports: pu.Ports(), PortStr: "20000-20001"}
	l := &zzListener{trigger: make(chan struct{}, 1)}
	l.failNext = verifBool("firstListenFails")
	failing := l.failNext
	min := time.Duration(verifInt64("minSec", 0, 12)) * time.Second
	max := time.Duration(verifInt64("maxSec", 0, 12)) * time.Second
	pc, err := NewUDPHopPacketConn(addr, HopIntervalConfig{Min: min, Max: max}, l.listen)
	valid := (min == 0 && max == 0) || (min >= 5*time.Second && min <= max)
	if err != nil {
		verifCover("refused")
		verifAssert(pc == nil, "an error comes without a hopping socket")
		verifAssert(l.open() == 0, "and leaves no real socket open")
		verifAssert(!valid || failing, "a valid configuration is refused only when the first socket cannot be created")
		return
	}
	verifAssert(valid && !failing, "a configuration outside the documented range is refused")
	verifAssert(len(l.socks) == 1 && l.open() == 1, "the hopping socket starts with one real socket")
	if min == 0 {
		min, max = defaultHopInterval, defaultHopInterval
	}
	verifCover("accepted")
	verifQuiesce() // the hop timer is armed by a goroutine the constructor starts: let it run before time moves
	if min > time.Second {
		verifAdvance(int64(min - time.Second))
		verifQuiesce()
		verifAssert(len(l.socks) == 1, "no hop before the minimum interval has passed")
	}
	verifAdvance(int64(max-min) + int64(time.Second))
	verifQuiesce()
	verifAssert(len(l.socks) >= 2 && l.open() == 2, "a hop has happened once the maximum interval has passed, and two sockets are open")
	verifAssert(pc.Close() == nil, "Close succeeds")
	verifQuiesce()
	verifAssert(l.open() == 0, "after Close every socket ever opened is closed")
}
