//go:build verif

//verif:pkg extras/transport/udphop
package udphop

import (
	"errors"
	"net"
	"time"

	"github.com/apernet/hysteria/extras/v2/utils"
)

// a tracked fake socket
type zzSock struct {
	id      int
	closes  int
	dests   []net.Addr
	gone    chan struct{}
	in      chan []byte   // datagrams arriving on this socket
	timeout chan struct{} // the read deadline expires
}

type zzTimeoutErr struct{}

func (zzTimeoutErr) Error() string   { return "i/o timeout" }
func (zzTimeoutErr) Timeout() bool   { return true }
func (zzTimeoutErr) Temporary() bool { return true }

func (s *zzSock) ReadFrom(p []byte) (int, net.Addr, error) {
	select {
	case b := <-s.in:
		return copy(p, b), &net.UDPAddr{IP: net.IP{127, 0, 0, 1}, Port: 20000}, nil
	case <-s.timeout:
		return 0, nil, zzTimeoutErr{}
	case <-s.gone:
		return 0, nil, net.ErrClosed
	}
}
func (s *zzSock) WriteTo(p []byte, addr net.Addr) (int, error) {
	if s.closes > 0 {
		return 0, net.ErrClosed
	}
	s.dests = append(s.dests, addr)
	return len(p), nil
}
func (s *zzSock) Close() error {
	s.closes++
	if s.closes == 1 {
		close(s.gone)
	}
	return nil
}
func (s *zzSock) LocalAddr() net.Addr                { return &net.UDPAddr{IP: net.IP{127, 0, 0, 1}, Port: 40000 + s.id} }
func (s *zzSock) SetDeadline(time.Time) error      { return nil }
func (s *zzSock) SetReadDeadline(time.Time) error  { return nil }
func (s *zzSock) SetWriteDeadline(time.Time) error { return nil }

type zzListener struct {
	socks    []*zzSock
	calls    int
	failNext bool
	armedAt  int           // the listen call during which a concurrent Close is triggered (0: never)
	trigger  chan struct{} // wakes the goroutine that calls Close
}

func (l *zzListener) listen() (net.PacketConn, error) {
	l.calls++
	if l.armedAt == l.calls {
		select {
		case l.trigger <- struct{}{}:
		default:
		}
	}
	if l.failNext {
		l.failNext = false
		return nil, errors.New("listen failed")
	}
	s := &zzSock{id: len(l.socks), gone: make(chan struct{}), in: make(chan []byte, 4), timeout: make(chan struct{}, 1)}
	l.socks = append(l.socks, s)
	return s, nil
}

// the open sockets, oldest first
func (l *zzListener) openSocks() []*zzSock {
	var out []*zzSock
	for _, s := range l.socks {
		if s.closes == 0 {
			out = append(out, s)
		}
	}
	return out
}

func (l *zzListener) open() int {
	n := 0
	for _, s := range l.socks {
		if s.closes == 0 {
			n++
		}
	}
	return n
}

// Histories of hops (timer driven, the listen call succeeding or failing),
// writes and Close on the hopping socket, with Close possibly arriving from
// another goroutine while a hop is inside its listen call (one pre-emption):
// every write goes through the current socket to an address of the configured
// port set; at most two sockets (previous and current) are open at a quiescent
// point; a failed listen skips the hop and opens nothing; after Close every
// socket ever opened is closed, writes fail and the timer opens nothing more.
//
//verif:harness kind=api replay=native+sched unwind=200 preempt=1 bound=events<=3(quick)/4(thorough),ports={20000,20001,20005},interval=30s,concurrent-close-during-any-listen,datagrams-on-current/previous-socket,read-timeouts
func ZZ_C19_HopCensus() {
	pu := utils.ParsePortUnion("20000-20001,20005")
	addr := &UDPHopAddr{IP: net.IP{127, 0, 0, 1}, Ports: pu.Ports(), PortStr: "20000-20001,20005"}
	l := &zzListener{trigger: make(chan struct{})}
	pc, err := NewUDPHopPacketConn(addr, HopIntervalConfig{}, l.listen)
	verifAssert(err == nil && pc != nil && len(l.socks) == 1, "the hopping socket starts with one real socket")
	u := pc.(*udpHopPacketConn)
	closed := false
	// a second goroutine that calls Close when triggered from inside a listen call
	l.armedAt = verifChoice("closeDuringListenCall", 4) // 0: never, else during the hop's k-th listen (the constructor's was #1)
	if l.armedAt > 0 {
		l.armedAt++
	}
	closer := make(chan struct{})
	go func() {
		<-l.trigger
		u.Close()
		close(closer)
	}()
	// the application reads in its own goroutine; timeouts are reported and reading goes on
	var got []byte
	timeouts, readerDone := 0, false
	go func() {
		buf := make([]byte, 8)
		for {
			n, _, err := pc.ReadFrom(buf)
			if err != nil {
				if te, ok := err.(net.Error); ok && te.Timeout() {
					timeouts++
					continue
				}
				readerDone = true
				return
			}
			if n == 1 {
				got = append(got, buf[0])
			}
		}
	}()
	var injected []byte
	steps := 3
	if verifThorough() {
		steps = 4
	}
	for s := 0; s < steps; s++ {
		switch verifChoice("event", 6) {
		case 4: // a datagram arrives on the current or on the previous socket
			open := l.openSocks()
			if len(open) == 0 {
				break
			}
			sk := open[len(open)-1]
			if len(open) == 2 && verifChoice("onPrevious", 2) == 1 {
				sk = open[0]
				verifCover("arrived-on-previous")
			}
			id := byte(1 + len(injected))
			injected = append(injected, id)
			sk.in <- []byte{id}
		case 5: // the read deadline expires on every open socket
			for _, sk := range l.openSocks() {
				select {
				case sk.timeout <- struct{}{}:
				default:
				}
			}
			verifCover("read-timeout")
		case 0: // the hop timer fires
			before := len(l.socks)
			wasClosed := u.closed
			verifAdvance(int64(30 * time.Second))
			verifQuiesce()
			if wasClosed {
				verifAssert(len(l.socks) == before, "after Close the timer opens no more sockets")
			}
			verifCover("hop")
		case 1: // the next listen call fails
			l.failNext = true
			before := len(l.socks)
			open := l.open()
			verifAdvance(int64(30 * time.Second))
			verifQuiesce()
			if !l.failNext {
				verifAssert(len(l.socks) == before, "a failed listen opens nothing")
				if !u.closed {
					verifAssert(l.open() == open, "and the hop is skipped: the current sockets stay")
				}
				verifCover("listen-failed")
			}
			l.failNext = false
		case 2: // a write
			n, err := pc.WriteTo([]byte{1, 2, 3}, addr)
			if u.closed {
				verifAssert(err != nil, "writing to a closed hopping socket fails")
			} else {
				verifAssert(err == nil && n == 3, "a write goes through")
				verifCover("write")
			}
		case 3:
			verifAssert(pc.Close() == nil, "Close succeeds")
			closed = true
			verifCover("close")
		}
		verifQuiesce()
		// delivery: what arrived on the current or the previous socket reached the reader, once, in order of arrival
		verifAssert(len(got) == len(injected), "every datagram that arrived on the current or the previous socket is delivered, once")
		for i := range got {
			verifAssert(i >= len(injected) || got[i] == injected[i], "in order of arrival, unaltered")
		}
		// census
		verifAssert(l.open() <= 2, "at most two sockets (previous and current) are open at a quiescent point")
		for _, sk := range l.socks {
			if sk.closes == 0 {
				verifAssert(!u.closed, "no socket is open once the hopping socket is closed")
				verifAssert(net.PacketConn(sk) == u.currentConn || net.PacketConn(sk) == u.prevConn, "every open socket is the current or the previous one")
			}
			for _, d := range sk.dests {
				ua := d.(*net.UDPAddr)
				verifAssert(ua.IP.Equal(net.IP{127, 0, 0, 1}) && (ua.Port == 20000 || ua.Port == 20001 || ua.Port == 20005), "every datagram goes to a port of the configured set")
			}
		}
	}
	if !closed {
		verifAssert(pc.Close() == nil, "Close succeeds")
	}
	verifQuiesce()
	for _, sk := range l.socks {
		verifAssert(sk.closes >= 1, "after Close every socket ever opened is closed")
	}
	verifAdvance(int64(61 * time.Second))
	verifQuiesce()
	verifAssert(l.open() == 0, "and stays so: the hop timer opens nothing after Close")
	verifAssert(readerDone, "after Close reads fail")
	// release the helper goroutine if it never fired
	select {
	case l.trigger <- struct{}{}:
	default:
	}
	verifQuiesce()
	_ = closer
	verifCover("done")
}
