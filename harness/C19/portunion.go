//go:build verif

//verif:pkg extras/utils
package utils

// Normalize keeps exactly the union of its ranges: Contains agrees with the
// union for a symbolic port (merging/sorting is an implementation choice and is
// not demanded).
//
//verif:harness kind=api unwind=64 bound=ranges<=3
func ZZ_C19_NormalizeSet() {
	n := 1 + verifChoice("n", 3)
	u := make(PortUnion, n)
	for i := range u {
		u[i] = PortRange{verifUint16("start"), verifUint16("end")}
		verifAssume(u[i].Start <= u[i].End)
	}
	p := verifUint16("port")
	in := false
	for i := range u {
		if p >= u[i].Start && p <= u[i].End {
			in = true
		}
	}
	r := append(PortUnion(nil), u...).Normalize()
	verifAssert(r.Contains(p) == in, "Contains(Normalize(u), p) iff p lies in one of the ranges")
	// Ports() enumerates exactly the members (checked through membership of p)
	cnt := 0
	for i := range r {
		if p >= r[i].Start && p <= r[i].End {
			cnt++
		}
	}
	verifAssert((cnt >= 1) == in, "the ranges Ports() walks cover exactly the union")
	verifCover("normalized")
}

func zzDigit(c byte) bool { return c >= '0' && c <= '9' }

// reference semantics of a port expression over [0-9,-]: valid?, contains p?
func zzRefPorts(s string, p uint16) (bool, bool) {
	contains := false
	i := 0
	for {
		// one token up to ',' or end
		var nums [2]uint32
		k := 0      // numbers seen in this token
		digits := 0 // digits of the current number
		for i < len(s) && s[i] != ',' {
			c := s[i]
			if c == '-' {
				if digits == 0 || k == 1 {
					return false, false // empty number or second dash
				}
				k = 1
				digits = 0
			} else if zzDigit(c) {
				nums[k] = nums[k]*10 + uint32(c-'0')
				digits++
				if nums[k] > 65535 {
					return false, false
				}
			} else {
				return false, false
			}
			i++
		}
		if digits == 0 {
			return false, false
		}
		lo, hi := nums[0], nums[0]
		if k == 1 {
			hi = nums[1]
			if lo > hi {
				lo, hi = hi, lo
			}
		}
		if uint32(p) >= lo && uint32(p) <= hi {
			contains = true
		}
		if i >= len(s) {
			return true, contains
		}
		i++ // skip ','
	}
}

// ParsePortUnion against the reference, for every string of up to 4 characters
// over the expression alphabet and a symbolic port.
//
//verif:harness kind=api unwind=64 bound=len<=4,alphabet=[0-9,-]
func ZZ_C19_ParseSet() {
	n := verifChoice("len", 5)
	bs := verifBytes("expr", n)
	for i := range bs {
		c := bs[i]
		verifAssume(zzDigit(c) || c == ',' || c == '-')
	}
	s := string(bs)
	p := verifUint16("port")
	valid, want := zzRefPorts(s, p)
	u := ParsePortUnion(s)
	if !valid {
		verifCover("invalid")
		verifAssert(u == nil, "malformed expression is rejected")
		return
	}
	verifCover("valid")
	verifAssert(u != nil, "well-formed expression is accepted")
	verifAssert(u.Contains(p) == want, "the parsed union contains exactly the listed ports")
}

//verif:harness kind=api unwind=64
func ZZ_C19_ParseAll() {
	p := verifUint16("port")
	verifAssert(ParsePortUnion("all").Contains(p) && ParsePortUnion("*").Contains(p), "all / * denote every port")
	u := ParsePortUnion("0,65535,10-12,11-20")
	verifAssert(u.Contains(p) == (p == 0 || p == 65535 || (p >= 10 && p <= 20)), "0 and 65535 and merged ranges")
	ports := u.Ports()
	verifAssert(len(ports) == 13, "Ports() enumerates the union once")
	verifCover("all")
}

// Numbers at and beyond the top of the port range: five- and six-digit numbers
// with symbolic digits, alone, as either end of a range and next to another
// port - accepted exactly when they are at most 65535, and then denoting
// exactly themselves.
//
//verif:harness kind=api unwind=64 bound=5-or-6-symbolic-digits,shapes{N;7-N;N-7;443,N}
func ZZ_C19_ParseLargeNumbers() {
	k := 5 + verifChoice("digits", 2)
	ds := verifBytes("number", k)
	for i := range ds {
		verifAssume(zzDigit(ds[i]))
	}
	num := string(ds)
	s := []string{num, "7-" + num, num + "-7", "443," + num}[verifChoice("shape", 4)]
	p := verifUint16("port")
	valid, want := zzRefPorts(s, p)
	u := ParsePortUnion(s)
	if !valid {
		verifCover("too-large")
		verifAssert(u == nil, "a number above 65535 makes the expression invalid")
		return
	}
	verifCover("in-range")
	verifAssert(u != nil, "a number up to 65535 is accepted")
	verifAssert(u.Contains(p) == want, "and denotes exactly itself (as a port or as the end of a range)")
}
