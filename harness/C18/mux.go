//go:build verif

//verif:pkg app/internal/proxymux
package proxymux

import (
	"errors"
	"net"
	"time"
)

type zzAddr struct{}

func (zzAddr) Network() string { return "tcp" }
func (zzAddr) String() string  { return "127.0.0.1:1080" }

// client connection: a byte script; Read hands out chunk bytes at a time
type zzConn struct {
	data   []byte
	pos    int
	chunk  int
	closed bool
	reads  int
}

func (c *zzConn) Read(p []byte) (int, error) {
	c.reads++
	if len(p) == 0 {
		return 0, nil
	}
	if c.pos >= len(c.data) {
		return 0, errors.New("EOF")
	}
	n := c.chunk
	if n > len(p) {
		n = len(p)
	}
	if n > len(c.data)-c.pos {
		n = len(c.data) - c.pos
	}
	copy(p, c.data[c.pos:c.pos+n])
	c.pos += n
	return n, nil
}
func (c *zzConn) Write(p []byte) (int, error)        { return len(p), nil }
func (c *zzConn) Close() error                       { c.closed = true; return nil }
func (c *zzConn) LocalAddr() net.Addr                { return zzAddr{} }
func (c *zzConn) RemoteAddr() net.Addr               { return zzAddr{} }
func (c *zzConn) SetDeadline(time.Time) error        { return nil }
func (c *zzConn) SetReadDeadline(time.Time) error    { return nil }
func (c *zzConn) SetWriteDeadline(time.Time) error   { return nil }

type zzBase struct {
	conns    chan net.Conn
	done     chan struct{}
	fail     chan struct{}
	closed   bool
	accepted int
}

func zzNewBase(n int) *zzBase {
	return &zzBase{conns: make(chan net.Conn, n), done: make(chan struct{}), fail: make(chan struct{}, 1)}
}

func (l *zzBase) Accept() (net.Conn, error) {
	select {
	case c := <-l.conns:
		l.accepted++
		return c, nil
	case <-l.done:
		return nil, net.ErrClosed
	case <-l.fail:
		return nil, errors.New("accept: too many open files")
	}
}
func (l *zzBase) Close() error {
	if !l.closed {
		l.closed = true
		close(l.done)
	}
	return nil
}
func (l *zzBase) Addr() net.Addr { return zzAddr{} }

// accept with a verdict instead of blocking forever
func zzTryAccept(l net.Listener) net.Conn {
	sl := l.(*subListener)
	select {
	case c, ok := <-sl.acceptChan:
		if ok {
			return c
		}
	default:
	}
	return nil
}

// Every connection on the shared port goes to exactly one handler chosen by
// its first byte (0x05: SOCKS5, anything else: HTTP) or is closed when that
// handler is not registered, and the handler reads the byte stream unchanged:
// the peeked byte first, exactly once, then the rest - also with zero-length
// reads and one-byte chunking.
//
//verif:harness kind=api replay=native+sched unwind=64 preempt=1 bound=stream<=3B,registrations:any-subset,one-preemption
func ZZ_C18_MuxFirstByte() {
	base := zzNewBase(2)
	deleted := 0
	m := newMuxListener(base, func() { deleted++ })
	wantHTTP, wantSOCKS := verifBool("registerHTTP"), verifBool("registerSOCKS")
	var hl, sl net.Listener
	if wantHTTP {
		l, err := m.ListenHTTP()
		verifAssert(err == nil, "HTTP handler registers")
		hl = l
	}
	if wantSOCKS {
		l, err := m.ListenSOCKS()
		verifAssert(err == nil, "SOCKS handler registers")
		sl = l
	}
	n := 1 + verifChoice("len", 3)
	data := verifBytes("stream", n)
	c := &zzConn{data: append([]byte(nil), data...), chunk: 1 + verifChoice("chunk", 2)}
	base.conns <- c
	verifQuiesce()
	var gotH, gotS net.Conn
	if hl != nil {
		gotH = zzTryAccept(hl)
	}
	if sl != nil {
		gotS = zzTryAccept(sl)
	}
	verifQuiesce()
	isSocks := data[0] == 5
	verifAssert(!(gotH != nil && gotS != nil), "a connection is handed to at most one handler")
	if isSocks {
		verifAssert(gotH == nil, "a connection starting with 0x05 never reaches the HTTP handler")
		verifAssert((gotS != nil) == wantSOCKS, "it reaches the SOCKS5 handler when that is registered")
	} else {
		verifAssert(gotS == nil, "any other first byte never reaches the SOCKS5 handler")
		verifAssert((gotH != nil) == wantHTTP, "it reaches the HTTP handler when that is registered")
	}
	got := gotH
	if got == nil {
		got = gotS
	}
	if got == nil {
		verifCover("closed")
		verifAssert(c.closed, "a connection nobody handles is closed")
		return
	}
	verifCover("routed")
	verifAssert(!c.closed, "a routed connection stays open")
	// the handler sees the original byte stream
	var z [0]byte
	k, err := got.Read(z[:])
	verifAssert(k == 0 && err == nil, "a zero-length read consumes nothing")
	var out []byte
	buf := make([]byte, 2)
	for len(out) < n {
		k, err := got.Read(buf)
		if err != nil {
			break
		}
		out = append(out, buf[:k]...)
	}
	verifAssert(len(out) == n, "the handler can read the whole stream")
	d := byte(0)
	for i := 0; i < len(out) && i < n; i++ {
		d |= out[i] ^ data[i]
	}
	verifAssert(d == 0, "the peeked byte comes first, once, followed by the rest unchanged")
}

// Registering a protocol twice is refused while the first handler is alive
// and allowed again after it was closed.
//
//verif:harness kind=api replay=native+sched unwind=64 preempt=1 bound=one-preemption
func ZZ_C18_MuxRegistration() {
	base := zzNewBase(1)
	deleted := 0
	m := newMuxListener(base, func() { deleted++ })
	h1, err := m.ListenHTTP()
	verifAssert(err == nil, "first registration succeeds")
	_, err = m.ListenHTTP()
	verifAssert(err != nil, "a second HTTP handler is refused while the first is alive")
	s1, err := m.ListenSOCKS()
	verifAssert(err == nil, "SOCKS registers next to HTTP")
	_, err = m.ListenSOCKS()
	verifAssert(err != nil, "a second SOCKS handler is refused while the first is alive")
	h1.Close()
	h2, err := m.ListenHTTP()
	verifAssert(err == nil && h2 != nil, "after Close the protocol can be registered again")
	verifAssert(s1 != nil, "handler")
	verifCover("reregistered")
}

type zzSink struct {
	got []net.Conn
}

func zzAcceptor(l net.Listener, s *zzSink) {
	for {
		c, err := l.Accept()
		if err != nil {
			return
		}
		s.got = append(s.got, c)
	}
}

// Every order of registration, handler close and one incoming connection:
// the connection ends up with exactly one live handler of the protocol its
// first byte selects, or it is closed - it is never handed to the other
// protocol, to two handlers, or dropped while still open.
//
//verif:harness kind=api replay=native+sched unwind=64 preempt=1 bound=ops<=3,one-connection,one-preemption
func ZZ_C18_MuxHistory() {
	base := zzNewBase(1)
	m := newMuxListener(base, func() {})
	var hl, sl net.Listener
	hs, ss := &zzSink{}, &zzSink{}
	first := verifByte("first")
	c := &zzConn{data: []byte{first, 'x'}, chunk: 1}
	delivered, failed := false, false
	steps := 3
	if verifThorough() {
		steps = 4
	}
	for i := 0; i < steps; i++ {
		switch verifChoice("op", 6) {
		case 5:
			// the operating system refuses the next accept
			if !failed {
				failed = true
				base.fail <- struct{}{}
			}
		case 0:
			if l, err := m.ListenHTTP(); err == nil {
				verifAssert(hl == nil, "a second HTTP handler is refused while the first is alive")
				hl = l
				go zzAcceptor(l, hs)
			}
		case 1:
			if l, err := m.ListenSOCKS(); err == nil {
				verifAssert(sl == nil, "a second SOCKS handler is refused while the first is alive")
				sl = l
				go zzAcceptor(l, ss)
			}
		case 2:
			if hl != nil {
				hl.Close()
				hl = nil
			}
		case 3:
			if sl != nil {
				sl.Close()
				sl = nil
			}
		case 4:
			if !delivered && !base.closed {
				delivered = true
				base.conns <- c
			}
		}
		if verifBool("settle") {
			verifQuiesce()
		}
	}
	verifQuiesce()
	if !delivered || base.accepted == 0 {
		// never taken off the listen queue: the operating system's business
		return
	}
	verifCover("delivered")
	nh, ns := len(hs.got), len(ss.got)
	verifAssert(nh+ns <= 1, "a connection is handed to at most one handler")
	if first == 5 {
		verifAssert(nh == 0, "a connection starting with 0x05 never reaches the HTTP handler")
	} else {
		verifAssert(ns == 0, "any other first byte never reaches the SOCKS5 handler")
	}
	if nh+ns == 1 {
		verifCover("routed")
		verifAssert(!c.closed, "a routed connection stays open")
	} else {
		verifCover("unrouted")
		verifAssert(c.closed, "a connection no handler received is closed")
	}
}
