//go:build verif

//verif:pkg app/internal/http
package http

import (
	"context"
	"errors"
	"io"
	"net"
	"net/http"
	"time"

	"github.com/apernet/hysteria/core/v2/client"
)

type zzAddr struct{ s string }

func (zzAddr) Network() string   { return "tcp" }
func (a zzAddr) String() string { return a.s }

// the local client: a list of segments, one per Read (a Read never spans two
// segments), then EOF
type zzConn struct {
	segs   [][]byte
	closed bool
	out    []byte
}

func (c *zzConn) Read(p []byte) (int, error) {
	if c.closed {
		return 0, net.ErrClosed
	}
	if len(p) == 0 {
		return 0, nil
	}
	for len(c.segs) > 0 && len(c.segs[0]) == 0 {
		c.segs = c.segs[1:]
	}
	if len(c.segs) == 0 {
		return 0, io.EOF
	}
	n := copy(p, c.segs[0])
	c.segs[0] = c.segs[0][n:]
	return n, nil
}
func (c *zzConn) Write(p []byte) (int, error) {
	if c.closed {
		return 0, net.ErrClosed
	}
	c.out = append(c.out, p...)
	return len(p), nil
}
func (c *zzConn) Close() error                     { c.closed = true; return nil }
func (c *zzConn) LocalAddr() net.Addr              { return zzAddr{"127.0.0.1:8080"} }
func (c *zzConn) RemoteAddr() net.Addr             { return zzAddr{"127.0.0.1:50000"} }
func (c *zzConn) SetDeadline(time.Time) error      { return nil }
func (c *zzConn) SetReadDeadline(time.Time) error  { return nil }
func (c *zzConn) SetWriteDeadline(time.Time) error { return nil }

type zzUp struct {
	got    []byte
	done   chan struct{}
	closed bool
}

func (u *zzUp) Read(p []byte) (int, error) {
	<-u.done
	return 0, io.EOF
}
func (u *zzUp) Write(p []byte) (int, error) {
	if u.closed {
		return 0, net.ErrClosed
	}
	u.got = append(u.got, p...)
	return len(p), nil
}
func (u *zzUp) Close() error {
	if !u.closed {
		u.closed = true
		close(u.done)
	}
	return nil
}
func (u *zzUp) LocalAddr() net.Addr              { return zzAddr{"up:1"} }
func (u *zzUp) RemoteAddr() net.Addr             { return zzAddr{"up:2"} }
func (u *zzUp) SetDeadline(time.Time) error      { return nil }
func (u *zzUp) SetReadDeadline(time.Time) error  { return nil }
func (u *zzUp) SetWriteDeadline(time.Time) error { return nil }

type zzHy struct {
	gated    bool
	accepted bool
	tcp      int
	addr     string
	up       *zzUp
	fail     bool
}

func (h *zzHy) TCP(addr string) (net.Conn, error) {
	verifAssert(!h.gated || h.accepted, "no upstream connection before the auth function accepted credentials")
	h.tcp++
	h.addr = addr
	if h.fail {
		return nil, errors.New("dial failed")
	}
	h.up = &zzUp{done: make(chan struct{})}
	return h.up, nil
}
func (h *zzHy) UDP() (client.HyUDPConn, error) { return nil, errors.New("no udp") }
func (h *zzHy) Close() error                   { return nil }

// A plain proxy request goes through net/http's client; only its dial matters here.
//
//verif:model (*net/http.Client).Do
func zzModelClientDo(c *http.Client, req *http.Request) (*http.Response, error) {
	host := req.URL.Host
	if req.URL.Port() == "" {
		host += ":80"
	}
	conn, err := c.Transport.(*http.Transport).DialContext(context.Background(), "tcp", host)
	if err != nil {
		return nil, err
	}
	conn.Close()
	return nil, errors.New("modelled transport: no response")
}

// Response formatting is not the subject.
//
//verif:model (*net/http.Response).Write
func zzModelResponseWrite(r *http.Response, w io.Writer) error {
	_, err := w.Write([]byte{'H', byte('0' + r.StatusCode/100), byte('0' + r.StatusCode/10%10), byte('0' + r.StatusCode%10)})
	return err
}

const zzGoodCreds = "dTpw" // base64("u:p")

// For a CONNECT or plain request with every way of (not) presenting
// credentials, every split of the stream into reads, and a symbolic payload
// pipelined behind the CONNECT header: the upstream is dialled only after the
// auth function accepted the presented credentials, and the pipelined bytes
// reach the upstream unmodified, in order, exactly once.
//
//verif:harness kind=api replay=native+sched unwind=400 preempt=0 bound=payload<=3B,7-credential-forms,5-splits
func ZZ_C18_HTTPGateAndConnect() {
	gated := verifChoice("credentialsConfigured", 2) == 1
	hy := &zzHy{gated: gated, fail: verifBool("dialFails")}
	s := &Server{HyClient: hy, AuthRealm: "r"}
	if gated {
		s.AuthFunc = func(u, p string) bool {
			ok := u == "u" && p == "p"
			if ok {
				hy.accepted = true
			}
			return ok
		}
	}
	connect := verifChoice("method", 2) == 0
	head := "GET http://example.com/x HTTP/1.1\r\nHost: example.com\r\n"
	if connect {
		head = "CONNECT example.com:443 HTTP/1.1\r\nHost: example.com:443\r\n"
	}
	good := false
	switch verifChoice("credentials", 7) {
	case 0:
	case 1:
		head += "Proxy-Authorization: Basic " + zzGoodCreds + "\r\n"
		good = true
	case 2:
		head += "Proxy-Authorization: bAsIc " + zzGoodCreds + "\r\n"
		good = true
	case 3:
		head += "Proxy-Authorization: Basic dTp4\r\n" // u:x
	case 4:
		head += "Proxy-Authorization: Basic dXA=\r\n" // "up": no colon
	case 5:
		head += "Proxy-Authorization: Basic !!!!\r\n"
	case 6:
		head += "Authorization: Basic " + zzGoodCreds + "\r\n" // the wrong header
	}
	head += "\r\n"
	tl := verifChoice("payloadLen", 4)
	payload := verifBytes("payload", tl)
	all := append([]byte(head), payload...)
	var segs [][]byte
	switch verifChoice("split", 5) {
	case 0:
		segs = [][]byte{all}
	case 1:
		segs = [][]byte{all[:len(head)], all[len(head):]}
	case 2:
		k := len(head) + tl/2
		segs = [][]byte{all[:k], all[k:]}
	case 3:
		segs = [][]byte{all[:len(head)-1], all[len(head)-1:]}
	case 4:
		for i := range all {
			segs = append(segs, all[i:i+1])
		}
	}
	c := &zzConn{segs: segs}
	s.dispatch(c)
	verifQuiesce()
	verifAssert(c.closed, "the client connection is closed when the handler returns")
	allowed := !gated || good
	if gated {
		verifAssert(hy.accepted == good, "the auth function accepts exactly the configured credentials")
	}
	if !allowed {
		verifCover("refused")
		verifAssert(hy.tcp == 0, "nothing is dialled for a request without accepted credentials")
		verifAssert(len(c.out) >= 4 && c.out[1] == '4' && c.out[2] == '0' && c.out[3] == '7', "the client is told that proxy authentication is required")
		return
	}
	if connect {
		verifCover("connect")
		verifAssert(hy.tcp == 1 && hy.addr == "example.com:443", "CONNECT dials the requested destination once")
		if !hy.fail {
			verifAssert(hy.up.closed, "the upstream connection is closed at the end")
			verifAssert(len(hy.up.got) == tl, "every byte pipelined behind the CONNECT header reaches the upstream exactly once")
			d := byte(0)
			for i := 0; i < tl && i < len(hy.up.got); i++ {
				d |= payload[i] ^ hy.up.got[i]
			}
			verifAssert(d == 0, "pipelined bytes reach the upstream unmodified and in order")
			if tl > 0 {
				verifCover("pipelined")
			}
		}
	} else {
		verifCover("plain")
		verifAssert(hy.tcp >= 1 && hy.addr == "example.com:80", "a plain request dials the requested host")
	}
}

// a Hysteria client whose dial for one destination takes a while
type zzHy2 struct {
	gate chan struct{}
	ups  map[string]*zzUp
}

func (h *zzHy2) TCP(addr string) (net.Conn, error) {
	if addr == "slow.example:443" {
		<-h.gate
	}
	u := &zzUp{done: make(chan struct{})}
	h.ups[addr] = u
	return u, nil
}
func (h *zzHy2) UDP() (client.HyUDPConn, error) { return nil, errors.New("no udp") }
func (h *zzHy2) Close() error                   { return nil }

// Two local clients at once: the first pipelines payload behind its CONNECT
// header while its upstream dial is still in progress; meanwhile a second
// client connects, sends its own CONNECT with payload and is served. Each
// upstream receives exactly its own client's payload - nothing of the other
// connection leaks into it (buffers taken from pools included).
//
//verif:harness kind=api replay=native+sched unwind=400 preempt=1 bound=2-connections,payload=3B-each,one-preemption
func ZZ_C18_HTTPTwoConnections() {
	hy := &zzHy2{gate: make(chan struct{}), ups: map[string]*zzUp{}}
	s := &Server{HyClient: hy}
	pa, pb := verifBytes("payloadA", 3), verifBytes("payloadB", 3)
	a := &zzConn{segs: [][]byte{append([]byte("CONNECT slow.example:443 HTTP/1.1\r\nHost: slow.example:443\r\n\r\n"), pa...)}}
	b := &zzConn{segs: [][]byte{append([]byte("CONNECT fast.example:443 HTTP/1.1\r\nHost: fast.example:443\r\n\r\n"), pb...)}}
	go s.dispatch(a)
	verifQuiesce() // A is waiting for its dial
	go s.dispatch(b)
	verifQuiesce() // B has been served completely
	ub := hy.ups["fast.example:443"]
	verifAssert(ub != nil && len(ub.got) == 3 && ub.got[0] == pb[0] && ub.got[1] == pb[1] && ub.got[2] == pb[2], "the second client's payload reaches its own upstream")
	close(hy.gate)
	verifQuiesce()
	ua := hy.ups["slow.example:443"]
	verifAssert(ua != nil && len(ua.got) == 3, "the first client's pipelined bytes reach its upstream, exactly once")
	verifAssert(ua.got[0] == pa[0] && ua.got[1] == pa[1] && ua.got[2] == pa[2], "unmodified: nothing another connection sent in the meantime replaces them")
	verifCover("both-served")
}

// The credential gate is per request, with no memory: on a server that has
// already served any history of accepted and refused requests (each on its own
// connection), a request is proxied only if the auth function accepted the
// credentials THIS request presented - a variant of previously accepted
// credentials (other letter case in the base64 text, another scheme spelling,
// another header) is judged on its own.
//
//verif:harness kind=api replay=native+sched unwind=400 preempt=0 bound=requests<=2(quick)/3(thorough)-on-separate-connections,6-credential-forms
func ZZ_C18_HTTPCredentialsPerRequest() {
	hy := &zzHy{gated: true}
	s := &Server{HyClient: hy, AuthRealm: "r"}
	asked := 0
	s.AuthFunc = func(u, p string) bool {
		asked++
		ok := u == "u" && p == "p"
		if ok {
			hy.accepted = true
		}
		return ok
	}
	n := 2
	if verifThorough() {
		n = 3
	}
	for i := 0; i < n; i++ {
		hy.accepted = false // the verdict on THIS request's credentials
		dialsBefore := hy.tcp
		head := "CONNECT example.com:443 HTTP/1.1\r\nHost: example.com:443\r\n"
		good := false
		switch verifChoice("credentials", 6) {
		case 0:
		case 1:
			head += "Proxy-Authorization: Basic dTpw\r\n"
			good = true
		case 2:
			head += "Proxy-Authorization: BASIC dTpw\r\n"
			good = true
		case 3:
			head += "Proxy-Authorization: Basic DTPW\r\n" // other letter case: other bytes
		case 4:
			head += "Proxy-Authorization: Basic dTpW\r\n"
		case 5:
			head += "Proxy-Authorization: Basic dTp4\r\n"
		}
		c := &zzConn{segs: [][]byte{[]byte(head + "\r\n")}}
		s.dispatch(c)
		verifQuiesce()
		verifAssert(hy.accepted == good, "the auth function accepts exactly the configured credentials")
		if good {
			verifCover("proxied")
			verifAssert(hy.tcp == dialsBefore+1, "accepted credentials: the destination is dialled")
		} else {
			verifCover("refused")
			verifAssert(hy.tcp == dialsBefore, "nothing is dialled for a request whose own credentials were not accepted")
			verifAssert(len(c.out) >= 4 && c.out[1] == '4' && c.out[2] == '0' && c.out[3] == '7', "the client is told that proxy authentication is required")
		}
	}
	_ = asked
}
