//go:build verif

//verif:pkg app/internal/socks5
package socks5

import (
	"errors"
	"io"
	"net"
	"time"
	"unsafe"

	"github.com/apernet/hysteria/core/v2/client"
)

type zzAddr struct{ s string }

func (zzAddr) Network() string   { return "tcp" }
func (a zzAddr) String() string { return a.s }

// the local client: a byte script, handed out chunk bytes at a time, then EOF
type zzConn struct {
	data   []byte
	pos    int
	chunk  int
	closed bool
	out    []byte
}

func (c *zzConn) Read(p []byte) (int, error) {
	if c.closed {
		return 0, net.ErrClosed
	}
	if len(p) == 0 {
		return 0, nil
	}
	if c.pos >= len(c.data) {
		return 0, io.EOF
	}
	n := c.chunk
	if n > len(p) {
		n = len(p)
	}
	if n > len(c.data)-c.pos {
		n = len(c.data) - c.pos
	}
	copy(p, c.data[c.pos:c.pos+n])
	c.pos += n
	return n, nil
}
func (c *zzConn) Write(p []byte) (int, error) {
	if c.closed {
		return 0, net.ErrClosed
	}
	c.out = append(c.out, p...)
	return len(p), nil
}
func (c *zzConn) Close() error                     { c.closed = true; return nil }
func (c *zzConn) LocalAddr() net.Addr              { return zzAddr{"127.0.0.1:1080"} }
func (c *zzConn) RemoteAddr() net.Addr             { return zzAddr{"127.0.0.1:50000"} }
func (c *zzConn) SetDeadline(time.Time) error      { return nil }
func (c *zzConn) SetReadDeadline(time.Time) error  { return nil }
func (c *zzConn) SetWriteDeadline(time.Time) error { return nil }

// the upstream connection: records what is written, its reader blocks until closed
type zzUp struct {
	got    []byte
	done   chan struct{}
	closed bool
}

func (u *zzUp) Read(p []byte) (int, error) {
	<-u.done
	return 0, io.EOF
}
func (u *zzUp) Write(p []byte) (int, error) {
	if u.closed {
		return 0, net.ErrClosed
	}
	u.got = append(u.got, p...)
	return len(p), nil
}
func (u *zzUp) Close() error {
	if !u.closed {
		u.closed = true
		close(u.done)
	}
	return nil
}
func (u *zzUp) LocalAddr() net.Addr              { return zzAddr{"up:1"} }
func (u *zzUp) RemoteAddr() net.Addr             { return zzAddr{"up:2"} }
func (u *zzUp) SetDeadline(time.Time) error      { return nil }
func (u *zzUp) SetReadDeadline(time.Time) error  { return nil }
func (u *zzUp) SetWriteDeadline(time.Time) error { return nil }

type zzUDPSess struct{ closed bool }

func (s *zzUDPSess) Receive() ([]byte, string, error) { return nil, "", errors.New("closed") }
func (s *zzUDPSess) Send([]byte, string) error        { return nil }
func (s *zzUDPSess) Close() error                     { s.closed = true; return nil }

// the Hysteria client: counts what the inbound opens
type zzHy struct {
	gated    bool // credentials are configured
	accepted bool // the auth function has accepted credentials on this connection
	tcp, udp int
	addr     string
	up       *zzUp
	fail     bool
}

func (h *zzHy) TCP(addr string) (net.Conn, error) {
	verifAssert(!h.gated || h.accepted, "no upstream connection before the auth function accepted credentials")
	h.tcp++
	h.addr = addr
	if h.fail {
		return nil, errors.New("dial failed")
	}
	h.up = &zzUp{done: make(chan struct{})}
	return h.up, nil
}
func (h *zzHy) UDP() (client.HyUDPConn, error) {
	verifAssert(!h.gated || h.accepted, "no UDP session before the auth function accepted credentials")
	h.udp++
	return &zzUDPSess{}, nil
}
func (h *zzHy) Close() error { return nil }

//verif:model net.ResolveUDPAddr
func zzModelResolveUDPAddr(network, address string) (*net.UDPAddr, error) {
	return &net.UDPAddr{IP: net.IP{127, 0, 0, 1}, Port: 0}, nil
}

//verif:model net.ListenUDP
func zzModelListenUDP(network string, laddr *net.UDPAddr) (*net.UDPConn, error) {
	return &net.UDPConn{}, nil
}

//verif:model (*net.conn).LocalAddr
func zzModelUDPLocalAddr(c unsafe.Pointer) net.Addr {
	return &net.UDPAddr{IP: net.IP{127, 0, 0, 1}, Port: 40000}
}

//verif:model (*net.conn).Close
func zzModelUDPClose(c unsafe.Pointer) error { return nil }

//verif:model (*net.UDPConn).ReadFromUDP
func zzModelUDPReadFromUDP(c *net.UDPConn, b []byte) (int, *net.UDPAddr, error) {
	return 0, nil, net.ErrClosed
}

const (
	zzUser = "u"
	zzPass = "p"
)

// zzScript builds a client stream field by field. Length fields are concrete
// per path (bounded), every other byte is symbolic, so wrong versions, methods,
// credentials, commands and address types are all covered; the destination is
// pinned so that address formatting (not the subject) stays concrete. The
// reference reading of RFC 1928/1929 is computed alongside: what the stream asks for.
type zzScript struct {
	data   []byte
	hdr    int  // end of the request
	cmd    byte // requested command
	ok     bool // complete, well-formed, and (if gated) carrying the right credentials
	authed bool
}

// vary: 1 = negotiation and credentials (request shape fixed), 2 = request
// shapes (negotiation fixed to the shortest accepted one), 3 = both.
func zzBuildScript(gated bool, vary int) *zzScript {
	sc := &zzScript{}
	var b []byte
	ok := true
	// method negotiation
	ver := byte(5)
	nm := 1
	ms := []byte{0}
	if gated {
		ms[0] = 2
	}
	if vary&1 != 0 {
		ver = verifByte("ver")
		nm = verifChoice("nmethods", 4)
		ms = verifBytes("methods", nm)
	}
	b = append(b, ver, byte(nm))
	b = append(b, ms...)
	want := byte(0)
	if gated {
		want = 2
	}
	found := false
	for _, m := range ms {
		if m == want {
			found = true
		}
	}
	ok = ok && ver == 5 && found
	// username/password sub-negotiation (a client may send it or not)
	if vary&1 == 0 {
		if gated {
			b = append(b, 1, 1, 'u', 1, 'p')
			sc.authed = true
		}
	} else if verifBool("sendsAuth") {
		av := verifByte("authver")
		ul := verifChoice("ulen", 3)
		pl := verifChoice("plen", 3)
		u := verifBytes("user", ul)
		pw := verifBytes("pass", pl)
		b = append(b, av, byte(ul))
		b = append(b, u...)
		b = append(b, byte(pl))
		b = append(b, pw...)
		if gated {
			good := av == 1 && string(u) == zzUser && string(pw) == zzPass
			sc.authed = ok && good
			ok = ok && good
		} else {
			// not asked for: these bytes are read as the request, which this
			// reference does not follow; such paths only get the gating assertions
			sc.data = b
			sc.hdr = -1
			return sc
		}
	} else if gated {
		ok = false
	}
	// request
	rv, cmd, rsv := verifByte("reqver"), verifByte("cmd"), verifByte("rsv")
	b = append(b, rv, cmd, rsv)
	shape := 0
	if vary&2 != 0 {
		shape = verifChoice("atyp", 4)
	}
	switch shape {
	case 0:
		b = append(b, 1, 10, 0, 0, 1)
	case 1:
		b = append(b, 4, 0x20, 1, 0xd, 0xb8, 0, 0, 0, 0, 0, 0, 0, 0, 0, 0, 0, 1)
	case 2:
		dl := verifChoice("domainlen", 4)
		b = append(b, 3, byte(dl))
		b = append(b, []byte("abc")[:dl]...)
		ok = ok && dl > 0
	case 3:
		at := verifByte("atypOther")
		verifAssume(at != 1 && at != 3 && at != 4)
		b = append(b, at, 1, 2, 3, 4)
		ok = false
	}
	b = append(b, 0x01, 0xbb)
	ok = ok && rv == 5
	sc.hdr = len(b)
	// pipelined payload
	tl := 2
	if vary&2 != 0 {
		tl = verifChoice("tail", 4)
	}
	b = append(b, verifBytes("payload", tl)...)
	sc.data, sc.cmd, sc.ok = b, cmd, ok
	return sc
}

// For every client byte stream (bounded), truncation point, chunking and
// credential setting: the inbound opens an upstream connection or UDP session
// only after the auth function accepted credentials presented on that
// connection; it opens one exactly when the reference reading of the stream
// asks for it; and what the client pipelines behind its request reaches the
// upstream unmodified. This harness varies negotiation and credentials.
//
//verif:harness kind=api replay=native+sched unwind=80 preempt=0 bound=nmethods<=3,ulen<=2,plen<=2,payload=2B,ipv4-request,pinned-destination
func ZZ_C18_Socks5Gate() { zzSocks(1) }

// The same, varying the request (address types, command, version), the
// pipelined payload, the truncation point and the chunking.
//
//verif:harness kind=api replay=native+sched unwind=80 preempt=0 bound=domain<=3,payload<=3B,pinned-destination,any-truncation
func ZZ_C18_Socks5Relay() { zzSocks(2) }

func zzSocks(vary int) {
	gated := verifChoice("credentialsConfigured", 2) == 1
	hy := &zzHy{gated: gated, fail: verifBool("dialFails")}
	s := &Server{HyClient: hy, DisableUDP: verifBool("disableUDP")}
	if gated {
		s.AuthFunc = func(u, p string) bool {
			ok := u == zzUser && p == zzPass
			if ok {
				hy.accepted = true
			}
			return ok
		}
	}
	sc := zzBuildScript(gated, vary)
	data := sc.data
	// the client may stop sending anywhere
	cut := len(data)
	truncated := false
	if sc.hdr > 0 && vary&2 != 0 && verifBool("truncated") {
		cut = verifChoice("cut", sc.hdr)
		truncated = true
	}
	chunk := []int{len(data) + 1, 1}[verifChoice("oneByteReads", 2)]
	c := &zzConn{data: append([]byte(nil), data[:cut]...), chunk: chunk}
	s.dispatch(c)
	verifQuiesce()
	verifAssert(c.closed, "the client connection is closed when the handler returns")
	if sc.hdr < 0 {
		return
	}
	ok := sc.ok && !truncated
	wantTCP := ok && sc.cmd == 1
	wantUDP := ok && sc.cmd == 3 && !s.DisableUDP
	if gated && !truncated {
		verifAssert(sc.authed == hy.accepted, "the auth function accepts exactly the configured credentials")
	}
	if wantTCP {
		verifCover("tcp")
		verifAssert(hy.tcp == 1 && hy.udp == 0, "a CONNECT request opens exactly one upstream connection")
		verifAssert(hy.addr == "10.0.0.1:443" || hy.addr == "[2001:db8::1]:443" || hy.addr == "a:443" || hy.addr == "ab:443" || hy.addr == "abc:443", "the upstream is dialled for the requested destination")
		if !hy.fail {
			verifAssert(hy.up.closed, "the upstream connection is closed at the end")
			rest := data[sc.hdr:]
			verifAssert(len(hy.up.got) == len(rest), "every byte pipelined behind the request reaches the upstream")
			d := byte(0)
			for i := 0; i < len(rest) && i < len(hy.up.got); i++ {
				d |= rest[i] ^ hy.up.got[i]
			}
			verifAssert(d == 0, "pipelined bytes reach the upstream unmodified and in order")
			if len(rest) > 0 {
				verifCover("pipelined")
			}
		}
	} else if wantUDP {
		verifCover("udp")
		verifAssert(hy.udp == 1 && hy.tcp == 0, "a UDP ASSOCIATE request opens exactly one UDP session")
	} else {
		verifCover("refused")
		verifAssert(hy.tcp == 0 && hy.udp == 0, "nothing is opened for a stream that does not carry a complete accepted request")
	}
}
