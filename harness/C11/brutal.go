//go:build verif

//verif:pkg core/internal/congestion/brutal
package brutal

import (
	"time"

	"github.com/apernet/quic-go/congestion"
	"github.com/apernet/quic-go/monotime"
)

type zzRTT struct{ srtt time.Duration }

func (r *zzRTT) MinRTT() time.Duration                   { return r.srtt }
func (r *zzRTT) LatestRTT() time.Duration                { return r.srtt }
func (r *zzRTT) SmoothedRTT() time.Duration              { return r.srtt }
func (r *zzRTT) MeanDeviation() time.Duration            { return 0 }
func (r *zzRTT) MaxAckDelay() time.Duration              { return 0 }
func (r *zzRTT) PTO(bool) time.Duration                  { return r.srtt }
func (r *zzRTT) UpdateRTT(sendDelta, ackDelay time.Duration) {}
func (r *zzRTT) SetMaxAckDelay(mad time.Duration)        {}
func (r *zzRTT) SetInitialRTT(t time.Duration)           {}

const zzMaxCount = 1 << 24 // packets per one-second slot

// From arbitrary slot contents the loss-compensation factor lies in [0.8, 1],
// is 1 below 50 samples or when disabled, and otherwise acked/(acked+lost)
// over the live slots clamped at 0.8.
//
//verif:harness kind=api bound=slot-counts<2^24,live-slots:2(quick)/5(thorough),one-step-from-arbitrary-state
func ZZ_C11_AckRate() {
	disable := verifBool("disable")
	b := NewBrutalSender(verifUint64("bps", 65536, 12_500_000_000), disable)
	b.SetRTTStatsProvider(&zzRTT{})
	cur := verifInt64("nowSec", 100, 1<<40)
	live := 2 // quick: two slots with arbitrary contents, the others stale
	if verifThorough() {
		live = pktInfoSlotCount
	}
	for i := range b.pktInfoSlots {
		if i >= live {
			b.pktInfoSlots[i] = pktInfo{Timestamp: 1, AckCount: 77, LossCount: 99}
			continue
		}
		b.pktInfoSlots[i] = pktInfo{
			Timestamp: verifInt64("ts", 0, 1<<40),
			AckCount:  verifUint64("ack", 0, zzMaxCount),
			LossCount: verifUint64("loss", 0, zzMaxCount),
		}
	}
	b.ackRate = verifFloat64("oldRate")
	b.updateAckRate(cur)
	var A, L uint64
	for _, s := range b.pktInfoSlots {
		if s.Timestamp >= cur-pktInfoSlotCount {
			A += s.AckCount
			L += s.LossCount
		}
	}
	verifAssert(b.ackRate >= 0.8 && b.ackRate <= 1, "loss-compensation factor lies in [0.8, 1]")
	if disable {
		verifCover("disabled")
		verifAssert(b.ackRate == 1, "factor is 1 when compensation is disabled")
		return
	}
	if A+L < minSampleCount {
		verifCover("few-samples")
		verifAssert(b.ackRate == 1, "factor is 1 below 50 samples")
		return
	}
	want := float64(A) / float64(A+L)
	if want < 0.8 {
		verifCover("clamped")
		verifAssert(b.ackRate == 0.8, "factor clamps at 0.8")
	} else {
		verifCover("rate")
		verifAssert(b.ackRate == want, "factor equals acked/(acked+lost) over the live slots")
	}
}

// The same through the event entry point: from an arbitrary slot state whose
// factor is up to date, ANY ack/loss event (0..2 acked, 0..2 lost packets, at
// the same or a later second) leaves the factor equal to the documented
// function of the updated slots - also when the event carries no loss.
//
//verif:harness kind=api bound=pre-state:2-live-slots-below-the-50-sample-threshold,event:0..2-acked,0..2-lost,same-or-next-second
func ZZ_C11_AckRateAfterEvent() {
	b := NewBrutalSender(verifUint64("bps", 65536, 12_500_000_000), false)
	b.SetRTTStatsProvider(&zzRTT{})
	prev := int64(1000)
	// two live slots with few samples: below the 50-sample threshold the factor is 1, so this state is consistent
	var a0, l0 uint64
	for i := range b.pktInfoSlots {
		if i >= 2 {
			b.pktInfoSlots[i] = pktInfo{Timestamp: 1, AckCount: 77, LossCount: 99}
			continue
		}
		b.pktInfoSlots[i] = pktInfo{
			Timestamp: prev - int64(i),
			AckCount:  verifUint64("ack", 0, 49),
			LossCount: verifUint64("loss", 0, 49),
		}
		a0 += b.pktInfoSlots[i].AckCount
		l0 += b.pktInfoSlots[i].LossCount
	}
	verifAssume(a0+l0 < minSampleCount)
	b.ackRate = 1
	cur := prev + int64(verifChoice("secondsLater", 2))
	acked := make([]congestion.AckedPacketInfo, verifChoice("acked", 3))
	lost := make([]congestion.LostPacketInfo, verifChoice("lost", 3))
	if len(acked)+len(lost) == 0 {
		return
	}
	b.OnCongestionEventEx(0, monotime.Time(cur*int64(time.Second)), acked, lost)
	var A, L uint64
	for _, s := range b.pktInfoSlots {
		if s.Timestamp >= cur-pktInfoSlotCount {
			A += s.AckCount
			L += s.LossCount
		}
	}
	if A+L < minSampleCount {
		verifCover("few-samples")
		verifAssert(b.ackRate == 1, "after an event the factor is 1 below 50 samples")
		return
	}
	// the event lifted the window to 50 samples or more: the losses seen so far count now
	verifCover("threshold-crossed")
	want := float64(A) / float64(A+L)
	if want < 0.8 {
		verifAssert(b.ackRate == 0.8, "after an event the factor clamps at 0.8")
	} else {
		verifAssert(b.ackRate == want, "after an event the factor equals acked/(acked+lost) over the live slots")
	}
}

// The same floor with the rate, RTT and factor on a concrete grid (so that the
// floating-point part folds to a constant) and the datagram size symbolic: a
// violating size, if there is one, is a plain integer model for the solver.
//
//verif:harness kind=api bound=bps∈{64KB/s,1MB/s,1GB/s},srtt∈{1ns,300µs,10ms},ackRate∈{0.8,1},datagram:any-in-[1200,65535]
func ZZ_C11_WindowFloorAnyDatagramSize() {
	b := NewBrutalSender([]uint64{65536, 1_000_000, 1_000_000_000}[verifChoice("bps", 3)], false)
	rtt := &zzRTT{srtt: []time.Duration{1, 300 * time.Microsecond, 10 * time.Millisecond}[verifChoice("srtt", 3)]}
	b.SetRTTStatsProvider(rtt)
	b.SetMaxDatagramSize(congestion.ByteCount(verifInt64("mds", 1200, 65535)))
	b.ackRate = []float64{0.8, 1}[verifChoice("rate", 2)]
	w := b.GetCongestionWindow()
	verifAssert(w >= b.maxDatagramSize, "window is at least one datagram of the current size")
	verifAssert(b.CanSend(0), "an idle connection may always send")
	verifCover("window")
}

// The congestion window is never below one datagram, whatever RTT and factor.
//
//verif:harness kind=api bound=ackRate∈[0.8,1],one-step-from-arbitrary-state
func ZZ_C11_WindowFloor() {
	b := NewBrutalSender(verifUint64("bps", 65536, 12_500_000_000), false)
	rtt := &zzRTT{srtt: time.Duration(verifInt64("srtt", -1, 1<<40))}
	b.SetRTTStatsProvider(rtt)
	b.SetMaxDatagramSize(congestion.ByteCount(verifInt64("mds", 1200, 65535)))
	b.ackRate = verifFloat64("rate")
	verifAssume(b.ackRate >= 0.8 && b.ackRate <= 1)
	w := b.GetCongestionWindow()
	verifAssert(w >= b.maxDatagramSize || (rtt.srtt <= 0 && w == 10240), "window is at least one datagram (or the fixed initial window before an RTT sample)")
	verifAssert(b.CanSend(0), "an idle connection may always send")
	_ = monotime.Time(0)
	verifCover("window")
}
