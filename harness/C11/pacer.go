//go:build verif

//verif:pkg core/internal/congestion/common
package common

import (
	"github.com/apernet/quic-go/congestion"
	"github.com/apernet/quic-go/monotime"
)

const (
	zzMinBw = 65536          // 64 KB/s floor
	zzMaxBw = 15_625_000_000 // 100 Gbit/s / 0.8
)

// an arbitrary pacer state a run can be in: bandwidth within the supported
// range, datagram size 1200..65535, a send already recorded, and a remaining
// budget that never exceeds the burst cap (established by Budget/SentPacket).
func zzPacer() (*Pacer, congestion.ByteCount) {
	bw := congestion.ByteCount(verifInt64("bw", zzMinBw, zzMaxBw))
	p := NewPacer(func() congestion.ByteCount { return bw })
	mds := congestion.ByteCount(verifInt64("mds", 1200, 65535))
	p.SetMaxDatagramSize(mds)
	p.lastSentTime = monotime.Time(verifInt64("lastSent", 1, 1<<60))
	p.budgetAtLastSent = congestion.ByteCount(verifInt64("budget", 0, 1<<40))
	verifAssume(p.budgetAtLastSent <= p.maxBurstSize())
	return p, bw
}

// Waiting until the time the pacer announces always yields budget for a full
// datagram (the ceil division never leaves the timer one byte short).
//
//verif:harness kind=api mode=int bound=bw∈[64KB/s,15.6GB/s],mds∈[1200,65535],one-step-from-arbitrary-state
func ZZ_C11_WakeupSufficient() {
	p, _ := zzPacer()
	t := p.TimeUntilSend()
	if t == 0 {
		verifCover("send-now")
		verifAssert(p.budgetAtLastSent >= p.maxDatagramSize, "zero wait only with budget for a datagram")
		verifAssert(p.Budget(p.lastSentTime) >= p.maxDatagramSize, "budget now covers a datagram")
		return
	}
	verifCover("wait")
	verifAssert(t > p.lastSentTime, "announced time lies in the future of the last send")
	verifAssert(p.Budget(t) >= p.maxDatagramSize, "at the announced time there is budget for a full datagram")
}

// One step of the token bucket: budget never exceeds the burst cap nor what
// accrued at the bandwidth since the last send; a send within budget is debited
// exactly. By induction, bytes released over any interval are at most the burst
// cap plus bandwidth times the interval.
//
//verif:harness kind=api mode=int bound=rate*gap<2^63,one-step-from-arbitrary-state
func ZZ_C11_BucketStep() {
	p, bw := zzPacer()
	before := p.budgetAtLastSent
	gap := verifInt64("gap", 0, 1<<62)
	verifAssume(int64(bw)*gap < 1<<62) // the property's own range: rate x gap fits 63 bits
	now := p.lastSentTime.Add(0)
	now = monotime.Time(int64(now) + gap)
	b := p.Budget(now)
	verifAssert(b <= p.maxBurstSize(), "budget capped at the burst size")
	verifAssert(b <= before+congestion.ByteCount(int64(bw)*gap/1_000_000_000), "budget accrues at most bandwidth x elapsed")
	verifAssert(b >= 0, "budget never negative")
	size := congestion.ByteCount(verifInt64("size", 1, 65535))
	p.SentPacket(now, size)
	if size <= b {
		verifCover("within-budget")
		verifAssert(p.budgetAtLastSent == b-size, "a send within budget is debited exactly")
	} else {
		verifCover("over-budget")
		verifAssert(p.budgetAtLastSent == 0, "an over-budget send empties the bucket")
	}
	verifAssert(p.lastSentTime == now, "send time recorded")
	verifAssert(p.budgetAtLastSent <= p.maxBurstSize(), "invariant: remaining budget within the burst cap")
}

// A fresh pacer allows an initial burst and nothing is ever negative.
//
//verif:harness kind=api mode=int
func ZZ_C11_FreshPacer() {
	bw := congestion.ByteCount(verifInt64("bw", zzMinBw, zzMaxBw))
	p := NewPacer(func() congestion.ByteCount { return bw })
	now := monotime.Time(verifInt64("now", 1, 1<<60))
	verifAssert(p.Budget(now) >= p.maxDatagramSize, "a fresh pacer can send at once")
	verifAssert(p.TimeUntilSend() == 0, "a fresh pacer announces no wait")
	verifCover("fresh")
}
