//go:build verif

//verif:pkg extras/obfs
package obfs

import (
	"net"
	"time"

	"golang.org/x/crypto/blake2b"
)

var zzKeyLens = []int{4, 5, 16, 120, 121, 128, 200} // short, and around the hash block size
var zzPayloadLens = []int{1, 2, 31, 32, 33, 64, 65}

// Wire format: salt(8) || payload[i] ^ BLAKE2b-256(key || salt)[i mod 32]; the
// hash is an uninterpreted function for the solver, the harness applies the
// same function to key||salt built independently of the implementation.
//
//verif:harness kind=api unwind=128 bound=key∈{4,5,16,120,121,128,200}B,payload∈{1,2,31,32,33,64,65}B(quick)/22-lengths-up-to-128B(thorough)
func ZZ_C13_ObfuscateSpec() {
	key := verifBytes("key", zzKeyLens[verifChoice("keyLen", len(zzKeyLens))])
	pls := zzPayloadLens
	if verifThorough() {
		pls = []int{1, 2, 7, 8, 9, 15, 16, 17, 24, 31, 32, 33, 40, 47, 48, 63, 64, 65, 95, 96, 97, 128}
	}
	n := pls[verifChoice("payloadLen", len(pls))]
	p := verifBytes("payload", n)
	// the caller's key lives in a larger buffer (spare capacity behind it) and the
	// caller wipes that buffer once the obfuscator exists: the key is fixed at wrap time
	backing := make([]byte, len(key)+16)
	copy(backing, key)
	ob, err := newSalamanderObfuscator(backing[:len(key)])
	verifAssert(err == nil && ob != nil, "keys of 4+ bytes are accepted")
	for i := range backing {
		backing[i] = 0xee
	}
	out := make([]byte, n+smSaltLen)
	k := ob.Obfuscate(p, out)
	verifAssert(k == n+smSaltLen, "obfuscated length is payload + 8")
	ks := make([]byte, 0, len(key)+smSaltLen)
	ks = append(ks, key...)
	ks = append(ks, out[:smSaltLen]...)
	h := blake2b.Sum256(ks)
	bad := byte(0)
	for i := 0; i < n; i++ {
		bad |= out[smSaltLen+i] ^ p[i] ^ h[i%32]
	}
	verifAssert(bad == 0, "wire = salt || payload XOR BLAKE2b-256(key||salt) repeated")
	// a second obfuscator with the same key inverts it
	ob2, _ := newSalamanderObfuscator(key)
	back := make([]byte, n)
	m := ob2.Deobfuscate(out, back)
	verifAssert(m == n, "deobfuscated length is the payload length")
	diff := byte(0)
	for i := 0; i < n; i++ {
		diff |= back[i] ^ p[i]
	}
	verifAssert(diff == 0, "round trip is the identity")
	verifCover("roundtrip")
}

//verif:harness kind=api bound=key∈{0..3}B
func ZZ_C13_ShortKeyRefused() {
	key := verifBytes("key", verifChoice("keyLen", 4))
	ob, err := newSalamanderObfuscator(key)
	verifAssert(err != nil && ob == nil, "keys shorter than 4 bytes are refused")
	c, err2 := WrapPacketConnSalamander(&zzPC{}, key)
	verifAssert(err2 != nil && c == nil, "wrapping with a short key is refused")
	verifCover("refused")
}

// in-memory PacketConn: a script of inbound packets, a log of outbound ones
type zzPC struct {
	in      [][]byte
	out     [][]byte
	readErr error
}

type zzAddr struct{}

func (zzAddr) Network() string { return "udp" }
func (zzAddr) String() string  { return "peer" }

func (c *zzPC) ReadFrom(p []byte) (int, net.Addr, error) {
	if len(c.in) == 0 {
		return 0, nil, c.readErr
	}
	b := c.in[0]
	c.in = c.in[1:]
	return copy(p, b), zzAddr{}, nil
}

func (c *zzPC) WriteTo(p []byte, a net.Addr) (int, error) {
	c.out = append(c.out, append([]byte(nil), p...))
	return len(p), nil
}
func (c *zzPC) Close() error                       { return nil }
func (c *zzPC) LocalAddr() net.Addr                { return zzAddr{} }
func (c *zzPC) SetDeadline(t time.Time) error      { return nil }
func (c *zzPC) SetReadDeadline(t time.Time) error  { return nil }
func (c *zzPC) SetWriteDeadline(t time.Time) error { return nil }

// Through the socket wrapper: WriteTo reports len(p); what a second wrapper
// with the same key reads back is the payload; packets of <= 8 bytes delivered
// before it never surface.
//
//verif:harness kind=api unwind=128 bound=payload∈{1,2,33,2039,2040}B,junk<=8B
func ZZ_C13_ConnTransparent() {
	key := verifBytes("key", 4)
	n := []int{1, 2, 33, 2039, 2040}[verifChoice("payloadLen", 5)] // 2040: the largest payload the wrapper's buffers hold
	var p []byte
	if n <= 64 {
		p = verifBytes("payload", n)
	} else {
		// long payloads: first and last bytes symbolic, the rest fixed
		p = make([]byte, n)
		for i := range p {
			p[i] = byte(i)
		}
		e := verifBytes("payloadEnds", 4)
		p[0], p[1], p[n-2], p[n-1] = e[0], e[1], e[2], e[3]
	}
	wire := &zzPC{}
	w, err := WrapPacketConnSalamander(wire, key)
	verifAssert(err == nil, "wrap ok")
	k, err := w.WriteTo(p, zzAddr{})
	verifAssert(err == nil && k == n, "WriteTo reports the caller's byte count")
	verifAssert(len(wire.out) == 1 && len(wire.out[0]) == n+8, "one datagram of payload+8 bytes on the wire")
	// receiver: a junk packet of 0..8 bytes first, then the real one
	junk := verifBytes("junk", verifChoice("junkLen", 9))
	rx := &zzPC{in: [][]byte{junk, wire.out[0]}, readErr: net.ErrClosed}
	r, _ := WrapPacketConnSalamander(rx, key)
	buf := make([]byte, 2048)
	m, addr, err := r.ReadFrom(buf)
	if len(junk) == 0 {
		// a zero-length read is handed through by the wrapper as is
		verifCover("empty-datagram")
		return
	}
	verifAssert(err == nil && addr != nil, "valid packet is delivered")
	verifAssert(m == n, "ReadFrom reports the payload length (junk packet was dropped)")
	diff := byte(0)
	for i := 0; i < n; i++ {
		diff |= buf[i] ^ p[i]
	}
	verifAssert(diff == 0, "payload arrives unchanged")
	verifCover("delivered")
}
