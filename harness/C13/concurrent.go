//go:build verif

//verif:pkg extras/obfs
package obfs

import (
	"golang.org/x/crypto/blake2b"
)

// (white-box: names the obfuscator's shared key buffer; kept in its own file so
// that a change of that field costs only this harness)

// One obfuscator serves the read and the write path of a wrapped socket at the
// same time. With every access to its shared key buffer a scheduling point, a
// packet being sent and a packet being received concurrently both come out
// right: the sent one is salt || payload XOR H(key||salt) for its own salt, the
// received one is recovered unchanged.
//
//verif:harness kind=api replay=interp unwind=128 preempt=2 bound=key=4B,payloads=2B,two-goroutines,two-preemptions-at-any-access-to-the-key-buffer
func ZZ_C13_ConcurrentReadWrite() {
	key := verifBytes("key", 4)
	ob, _ := newSalamanderObfuscator(key)
	peer, _ := newSalamanderObfuscator(key)
	// a packet from the peer, to be received
	pIn := verifBytes("inbound", 2)
	wire := make([]byte, 2+smSaltLen)
	peer.Obfuscate(pIn, wire)
	verifRacePoints(ob.keyInput)
	pOut := verifBytes("outbound", 2)
	out := make([]byte, 2+smSaltLen)
	back := make([]byte, 2)
	done := make(chan int, 2)
	go func() { done <- ob.Obfuscate(pOut, out) }()
	go func() { done <- ob.Deobfuscate(wire, back) }()
	<-done
	<-done
	verifAssert(back[0] == pIn[0] && back[1] == pIn[1], "the packet received while another is being sent arrives unchanged")
	ks := append(append([]byte(nil), key...), out[:smSaltLen]...)
	h := blake2b.Sum256(ks)
	verifAssert(out[smSaltLen] == pOut[0]^h[0] && out[smSaltLen+1] == pOut[1]^h[1], "the packet sent while another is being received is masked with the key of its own salt")
	verifCover("concurrent")
}
