#!/usr/bin/env python3
# Regenerates MANIFEST.json from the table below (kept in one place so that the
# claimed list, the not_applicable list and the commands stay consistent).
import json, os
V = os.path.dirname(os.path.abspath(__file__))
ALL = ["C%02d" % i for i in range(1, 21)]
claimed = json.load(open(os.path.join(V, "claims.json")))
checks = []
for pid in ALL:
    c = claimed.get(pid)
    if not c or not c.get("claimed"):
        continue
    checks.append({
        "property_id": pid,
        "quick_cmd": "./check %s quick" % pid,
        "thorough_cmd": "./check %s thorough" % pid,
        "evidence_file": "/verif/evidence/%s.json" % pid,
        "replay_cmd_template": "./check --replay {path}",
        "engine": "gosmt",
        "level_claimed": {
            "category": "model_checking",
            "text": c["text"],
            "design_ref": "DESIGN.md §3 " + pid,
        },
        "level_note": c["note"],
        "technique": "bounded symbolic execution of go/ssa + SMT (z3): " + c["technique"],
    })
na = []
for pid in ALL:
    c = claimed.get(pid)
    if not c or not c.get("claimed"):
        na.append({"property_id": pid, "reason": (c or {}).get("reason", "no check built yet with the solver-based technique; not claimed")})
m = {
    "version": 1,
    "setup_cmd": "./build.sh",
    "hooks": {
        "guard": "verif",
        "enable": "no source hooks in /repo: harnesses (//go:build verif) are injected in-package through go/packages Overlay and go test -overlay",
        "baseline_off_cmd": "for m in $(cat /w/out/gomods.txt); do MF=$(cd /repo/$m && . /w/out/goenv.sh && gomodflag); (cd /repo/$m && go test $MF -json -vet=off -count=1 -timeout 25m ./...); done",
        "source_commits": [],
        "add_only": True,
    },
    "engines": [{
        "name": "gosmt", "path": "/verif/engine",
        "serves_properties": [c["property_id"] for c in checks],
        "kind_free_text": "symbolic executor for Go SSA (x/tools go/ssa) written for this task; path conditions and assertions discharged by z3 -in; counterexamples replayed natively with go test -overlay",
    }],
    "checks": checks,
    "not_applicable": na,
    "notes": "See DESIGN.md. Every check re-loads /repo's working tree, rebuilds SSA and regenerates all SMT queries on each run.",
}
json.dump(m, open(os.path.join(V, "MANIFEST.json"), "w"), indent=1)
print("claimed:", [c["property_id"] for c in checks])
